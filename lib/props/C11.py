"""C11: GIntervalIndexSet / GIntervalIndexMap keep positional identity."""
import lapgen as G
import recgen as R
import sx
from common import Case
from C02 import canon

ID = 'C11'
RULE = ('iset / imap cases: region sequences with duplicates, interleaved chromosomes (per-chromosome order differs from '
        'supply order), unsorted coordinates; get for every index 0..len+2, len, iteration order, find / find_index_of / '
        'find_full / is_overlapped on queries from stored endpoints +-1; imap with distinct values; non-trivial = a '
        'duplicated region and a supply order that is not sorted; distinct by case text')
UNIQUE_NOTE = 'iset_find_index: the set of reported positions is determined by the supplied sequence and the query'
EXHAUSTIVE = {}


def gen(rng, tier):
    n = 1200 if tier == 'quick' else 30000
    for k in range(n):
        mode = rng.choice(['small', 'small', 'small', 'small', 'wide', 'medium', 'dense'])
        regs = R.rand_regions(rng, mode, rng.choice([0, 1, 2, 3, 5, 8, 12]), rng.choice(['le', 'ne', 'ne', 'any']), rng.choice([1, 2, 3]))
        if regs and rng.random() < 0.5:
            regs.insert(rng.randint(0, len(regs)), rng.choice(regs))
        dup = len(set(regs)) < len(regs)
        unsorted_ = regs != sorted(regs)
        ops = [['len'], ['iter']] + [['get', i] for i in range(len(regs) + 3)]
        for _ in range(rng.randint(2, 8)):
            q = R.rand_query(rng, regs, mode, nonempty=(rng.random() < 0.7))          # also point queries [p, p)
            if rng.random() < 0.06:
                q = (q[0], q[2], q[1])                                                   # and reversed ones
            qa = [R.h(q[0]), q[1], q[2]]
            if k % 2 == 0:
                ops += [['find'] + qa, ['findidx'] + qa, ['findfull'] + qa, ['isov'] + qa]
            else:
                ops += [['find'] + qa, ['findidx'] + qa]
        if k % 2 == 0:
            yield Case(sx.dump(['iset', ['regs'] + [[R.h(c), s, e] for c, s, e in regs], ['ops'] + ops]), dup and unsorted_, mode)
        else:
            vals = rng.sample(range(1000, 1000 + 10 * (len(regs) + 1)), len(regs))
            ops = [o for o in ops if o[0] != 'iter']
            yield Case(sx.dump(['imap', ['recs'] + [[R.h(c), s, e, v] for (c, s, e), v in zip(regs, vals)], ['ops'] + ops]), dup and unsorted_, mode)


    # several hundred regions on one chromosome (257..700: past any per-block summary of 64 / 128 / 256 entries), supplied
    # in an order with LOCALITY that is not coordinate order (descending, blocks reversed, interleaved halves), a second
    # small chromosome in between; queries spanning every multiple of 64 in sorted position
    for k in range(16 if tier == 'quick' else 160):
        m = rng.choice([257, 300, 513, 520, 700])
        c0, c1 = rng.sample([b'chr1', b'chr2', b'chrX'], 2)
        step = rng.choice([7, 10, 13])
        base = [(c0, i * step, i * step + rng.randint(1, 3 * step)) for i in range(m)]
        order = rng.choice([0, 0, 1, 1, 2, 3])
        if order == 0:
            regs = base[::-1]
        elif order == 1:
            B = rng.choice([64, 100, 256]); regs = [r for j in range((m + B - 1) // B - 1, -1, -1) for r in base[j * B:(j + 1) * B]]
        elif order == 2:
            regs = base[m // 2:] + base[:m // 2]
        else:
            regs = base[1::2] + base[0::2]
        regs.insert(rng.randint(0, len(regs)), (c1, 5, 50)); regs.insert(rng.randint(0, len(regs)), (c1, 0, 7))
        ops = [['len']]
        for j in list(range(60, m, 64))[:12] + [rng.randrange(m) for _ in range(6)]:
            a0 = base[j][1] - rng.randint(0, 2 * step); qa = [R.h(c0), max(0, a0), base[min(m - 1, j + 3)][1] + 1]
            ops += [['findidx'] + qa, ['find'] + qa] + ([['findfull'] + qa, ['isov'] + qa] if k % 2 == 0 else [])
        ops += [['get', i] for i in (0, 1, 255, 256, 257, m - 1, m, m + 1, m + 2)]
        if k % 2 == 0:
            yield Case(sx.dump(['iset', ['regs'] + [[R.h(c), s_, e_] for c, s_, e_ in regs], ['ops'] + ops]), True, 'many-regions')
        else:
            vals = list(range(5000, 5000 + len(regs)))
            yield Case(sx.dump(['imap', ['recs'] + [[R.h(c), s_, e_, v] for (c, s_, e_), v in zip(regs, vals)], ['ops'] + ops]), True, 'many-regions')


def classify(case, impl, model):
    return 'mismatch'


def explain(case, impl, model):
    return 'positional accessor or query result differs from the proved model'

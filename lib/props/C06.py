"""C06: BinnedCoverage / SparseBinnedCoverage count every bin a tag overlaps, and only those."""
import itertools
import lapgen as G
import recgen as R
import sx
from common import Case
from C05 import canon

ID = 'C06'
RULE = ('bcov cases: lists of NON-EMPTY regions (empty list, duplicates, several chromosomes) x bin sizes (1, divisors and '
        'non-divisors of the region length, larger than the region, u64::MAX) x insert/reset histories through '
        'BinnedCoverage<i64> and SparseBinnedCoverage<i64> at once, with tags starting before / ending after the region, '
        'on bin edges, single base, spanning many bins; regions(), len(), get_region / get_chrom for every index '
        '0..len+3; non-trivial = some region has >= 2 bins and a tag hits a proper sub-range of them; distinct by case text')
UNIQUE_NOTE = 'bin_range_iff / binned_counts: each bin counter is a function (a sum) of the history'
EXHAUSTIVE = {}
W64 = 18446744073709551615


def nb(s, e, b):
    return -(-(e - s) // b)


def one(rng, regs, b, mode, nops):
    ops = [['len'], ['regions']]
    nt = False
    for _k in range(nops):
        r = rng.random()
        if r < 0.7:
            q = R.rand_query(rng, regs, mode)
            if regs and rng.random() < 0.5:
                c, s, e = rng.choice(regs)      # tag aligned to bin edges of a region
                lo = s + b * rng.randint(0, 3) + rng.choice([-1, 0, 0, 1])
                hi = lo + rng.choice([1, b, b + 1, 2 * b, max(1, b - 1)])
                lo = max(0, min(lo, W64 - 1)); hi = max(lo + 1, min(hi, W64))
                q = (c, lo, hi)
            k = rng.choice([1, 1, 2, -1, 3])
            ops.append(['ins', R.h(q[0]), q[1], q[2], k])
            for (c, s, e) in regs:
                if R.hit(q, (c, s, e)) and nb(s, e, b) >= 2 and (q[1] > s + b - 1 or q[2] <= e - ((e - s - 1) % b + 1)):
                    nt = True
        elif r < 0.8:
            ops.append(['reset'])
        else:
            ops.append(['get'])
    ops.append(['get'])
    total = sum(nb(s, e, b) for _, s, e in regs)
    idxs = list(range(min(total, 40) + 4))
    if rng.random() < 0.5:
        rng.shuffle(idxs)                      # lookups in arbitrary (also descending) order
    for i in idxs:
        ops.append(['getregion', i]); ops.append(['getchrom', i])
    if total > 40:
        for i in (total - 1, total, total + 1):
            ops.append(['getregion', i]); ops.append(['getchrom', i])
    return ops, nt


def gen(rng, tier):
    n = 1200 if tier == 'quick' else 30000
    for _ in range(n):
        mode = rng.choice(['small', 'small', 'small', 'medium', 'wide'])
        regs = R.rand_regions(rng, mode, rng.choice([0, 1, 1, 2, 3, 5]), 'ne', rng.choice([1, 2]))
        if regs and rng.random() < 0.3:
            regs.insert(rng.randint(0, len(regs)), rng.choice(regs))
        if mode == 'medium' and rng.random() < 0.4:
            # more than 16 regions on one chromosome, one of them starting at coordinate 0
            c0 = R.chrom(rng)
            regs = [(c0, 0, rng.randint(20, 90))] + [(c0, x, x + rng.randint(5, 60)) for x in sorted(rng.sample(range(1, 800), rng.choice([17, 24, 33])))]
            rng.shuffle(regs)
        if mode == 'wide':
            # keep the number of bins small: big bins only
            b = rng.choice([W64, W64 - 1, 2**63, 2**62 + 3])
            regs = [(c, s, e) for (c, s, e) in regs if (e - s) // b < 50]
        else:
            L = (regs[0][2] - regs[0][1]) if regs else 5
            b = rng.choice([1, 1, 2, 3, L, max(1, L - 1), L + 1, max(1, L // 2), 7, W64]) if len(regs) < 10 else rng.choice([7, 10, 25, max(1, L // 2), L + 1])
        ops, nt = one(rng, regs, b, mode, rng.randint(2, 12))
        yield Case(sx.dump(['bcov', b, ['regs'] + [[R.h(c), s, e] for c, s, e in regs], ['ops'] + ops]), nt, mode)
    if tier == 'thorough':
        c = R.h(b'chr1')
        for s in range(0, 4):
            for e in range(s + 1, 9):
                for b in range(1, 10):
                    ops = [['regions']]
                    for ts in range(0, 10):
                        for te in range(ts + 1, 11):
                            ops += [['reset'], ['ins', c, ts, te, 1], ['get']]
                    for i in range(0, 12):
                        ops += [['getregion', i], ['getchrom', i]]
                    yield Case(sx.dump(['bcov', b, ['regs', [c, s, e]], ['ops'] + ops]), nb(s, e, b) >= 2, 'exhaustive')


def classify(case, impl, model):
    o = sx.parse(case)
    if 'none' in model and 'none' not in impl.replace('(r', ''):
        pass
    return 'mismatch'


def explain(case, impl, model):
    return 'a bin counter / bin geometry / index lookup differs from the proved model'

"""C06: BinnedCoverage / SparseBinnedCoverage count every bin a tag overlaps, and only those."""
import itertools
import lapgen as G
import recgen as R
import sx
from common import Case
from C05 import canon as _canon5


def canon(case, out):
    """sbcov cases print the sparse map itself: entries sorted by flat index, zero counts dropped (whether a bin whose
    count returned to zero keeps an entry is not specified)"""
    o = _canon5(case, out)
    if case.startswith('(sbcov') and isinstance(o, list):
        res = []
        for x in o:
            if isinstance(x, list) and x and x[0] == 'smap' and len(x) == 4 and isinstance(x[3], list):
                ent = sorted(([int(e[0]), int(e[1])] for e in x[3] if int(e[1]) != 0))
                res.append(['smap', x[1], x[2], [[str(i), str(v)] for i, v in ent]])
            else:
                res.append(x)
        return res
    return o

ID = 'C06'
RULE = ('bcov cases: lists of NON-EMPTY regions (empty list, duplicates, several chromosomes) x bin sizes (1, divisors and '
        'non-divisors of the region length, larger than the region, u64::MAX) x insert/reset histories through '
        'BinnedCoverage<i64> and SparseBinnedCoverage<i64> at once, with tags starting before / ending after the region, '
        'on bin edges, single base, spanning many bins; regions(), len(), get_region / get_chrom for every index '
        '0..len+3; non-trivial = some region has >= 2 bins and a tag hits a proper sub-range of them; distinct by case text')
UNIQUE_NOTE = 'bin_range_iff / binned_counts: each bin counter is a function (a sum) of the history'
EXHAUSTIVE = {}
W64 = 18446744073709551615


def nb(s, e, b):
    return -(-(e - s) // b)


def one(rng, regs, b, mode, nops):
    ops = [['len'], ['regions']]
    nt = False
    for _k in range(nops):
        r = rng.random()
        if r < 0.7:
            q = R.rand_query(rng, regs, mode)
            if regs and rng.random() < 0.5:
                c, s, e = rng.choice(regs)      # tag aligned to bin edges of a region
                lo = s + b * rng.randint(0, 3) + rng.choice([-1, 0, 0, 1])
                hi = lo + rng.choice([1, b, b + 1, 2 * b, max(1, b - 1)])
                lo = max(0, min(lo, W64 - 1)); hi = max(lo + 1, min(hi, W64))
                q = (c, lo, hi)
            k = rng.choice([1, 1, 2, -1, 3])
            ops.append(['ins', R.h(q[0]), q[1], q[2], k])
            for (c, s, e) in regs:
                if R.hit(q, (c, s, e)) and nb(s, e, b) >= 2 and (q[1] > s + b - 1 or q[2] <= e - ((e - s - 1) % b + 1)):
                    nt = True
        elif r < 0.8:
            ops.append(['reset'])
        else:
            ops.append(['get'])
    ops.append(['get'])
    total = sum(nb(s, e, b) for _, s, e in regs)
    idxs = list(range(min(total, 40) + 4))
    if rng.random() < 0.5:
        rng.shuffle(idxs)                      # lookups in arbitrary (also descending) order
    for i in idxs:
        ops.append(['getregion', i]); ops.append(['getchrom', i])
    if total > 40:
        for i in (total - 1, total, total + 1):
            ops.append(['getregion', i]); ops.append(['getchrom', i])
    return ops, nt


def gen(rng, tier):
    n = 1200 if tier == 'quick' else 30000
    for _ in range(n):
        mode = rng.choice(['small', 'small', 'small', 'medium', 'wide'])
        regs = R.rand_regions(rng, mode, rng.choice([0, 1, 1, 2, 3, 5]), 'ne', rng.choice([1, 2]))
        if regs and rng.random() < 0.3:
            regs.insert(rng.randint(0, len(regs)), rng.choice(regs))
        if mode == 'medium' and rng.random() < 0.4:
            # more than 16 regions on one chromosome, one of them starting at coordinate 0
            c0 = R.chrom(rng)
            regs = [(c0, 0, rng.randint(20, 90))] + [(c0, x, x + rng.randint(5, 60)) for x in sorted(rng.sample(range(1, 800), rng.choice([17, 24, 33])))]
            rng.shuffle(regs)
        if mode == 'wide':
            # keep the number of bins small: big bins only
            b = rng.choice([W64, W64 - 1, 2**63, 2**62 + 3])
            regs = [(c, s, e) for (c, s, e) in regs if (e - s) // b < 50]
        else:
            L = (regs[0][2] - regs[0][1]) if regs else 5
            b = rng.choice([1, 1, 2, 3, L, max(1, L - 1), L + 1, max(1, L // 2), 7, W64]) if len(regs) < 10 else rng.choice([7, 10, 25, max(1, L // 2), L + 1])
        ops, nt = one(rng, regs, b, mode, rng.randint(2, 12))
        yield Case(sx.dump(['bcov', b, ['regs'] + [[R.h(c), s, e] for c, s, e in regs], ['ops'] + ops]), nt, mode)
    # region lists far longer than any bookkeeping threshold (65..300 regions), with sweeps that hit most regions
    # between two resets, then a reset, a few more tags, another reset, and the counts read after every phase
    for k in range(10 if tier == 'quick' else 80):
        nreg = rng.choice([65, 66, 70, 100, 129, 257, 300])
        chs = R.chrom_set(rng, 2)
        regs = []
        x = 0
        for i in range(nreg):
            x += rng.randint(0, 6); L = rng.randint(1, 12)
            regs.append((chs[i % len(chs)] if k % 2 else chs[0], x, x + L)); x += L
        if k % 3 == 0:
            rng.shuffle(regs)
        b = rng.choice([1, 3, 5, 12, 13])
        ops = [['len']]
        def sweep(frac):
            out = []
            for (c, s_, e_) in regs:
                if rng.random() < frac:
                    out.append(['ins', R.h(c), s_ + rng.randint(0, max(0, e_ - s_ - 1)), e_ + rng.randint(0, 2), rng.choice([1, 1, 2, 5])])
            return out
        ops += sweep(rng.choice([0.3, 0.7, 0.95, 1.0])) + [['get'], ['reset'], ['get']]
        ops += sweep(0.03) + [['get'], ['reset'], ['get']] + sweep(0.05) + [['get']]
        ops += sweep(1.0) + [['reset']] + sweep(0.02) + [['get'], ['reset'], ['get'], ['regions']]
        for i in (0, 1, 63, 64, 65, nreg - 1, nreg, nreg * 13):
            ops += [['getregion', i], ['getchrom', i]]
        yield Case(sx.dump(['bcov', b, ['regs'] + [[R.h(c), s_, e_] for c, s_, e_ in regs], ['ops'] + ops]), True, 'many-regions')
    # sparse counter alone: region lists whose cumulative number of bins crosses 2^8, 2^16, 2^32 (and 2^63) BEFORE the
    # last regions, tags in the regions behind the big one, lookups on both sides of every power of two and of len()
    for k in range(12 if tier == 'quick' else 100):
        big = rng.choice([2**8, 2**16, 2**32, 2**32, 2**33 + 5, 2**48, 2**63])
        b = rng.choice([1, 1, 2, 3, 7]) if big < 2**60 else 1
        chs = R.chrom_set(rng, 3)
        extra = rng.randint(0, 300)
        regs = [(chs[0], 10, 10 + rng.randint(1, 40)), (chs[1 % len(chs)], 0, big * b + extra)]
        for j in range(rng.randint(1, 4)):
            s0 = rng.randint(0, 5000); regs.append((chs[j % len(chs)], s0, s0 + rng.randint(1, 3000)))
        if k % 4 == 3:
            regs = regs[1:] + regs[:1]
        ops = []
        def tag_in(r):
            c, s_, e_ = r
            a0 = rng.randint(s_, max(s_, min(e_ - 1, s_ + 5000))) if rng.random() < 0.7 else max(s_, e_ - rng.randint(1, 20))
            return ['ins', R.h(c), a0, a0 + rng.randint(1, 3 * b + 2), rng.choice([1, 2, 5, -1])]
        nbins_ = lambda r: -(-(r[2] - r[1]) // b)
        total = sum(nbins_(r) for r in regs)
        for _j in range(rng.randint(3, 9)):
            ops.append(tag_in(rng.choice(regs)))
            if rng.random() < 0.4:
                ops.append(['getmap'])
        ops.append(['getmap'])
        acc = 0
        probes = set([0, 1, total - 1, total, total + 1, big - 1, big, big + 1, 2**32 - 1, 2**32, 2**32 + 1, 2**16, 2**8])
        for r in regs:
            probes.update([acc, acc + 1, max(0, acc - 1), acc + nbins_(r) - 1]); acc += nbins_(r)
        for i in sorted(p for p in probes if 0 <= p < 2**64):
            ops += [['getregion', i], ['getchrom', i]]
        ops += [['reset'], ['getmap'], tag_in(regs[-1]), ['getmap']]
        yield Case(sx.dump(['sbcov', b, ['regs'] + [[R.h(c), s_, e_] for c, s_, e_ in regs], ['ops'] + ops]), True, 'huge-bin-count')
    if tier == 'thorough':
        c = R.h(b'chr1')
        for s in range(0, 4):
            for e in range(s + 1, 9):
                for b in range(1, 10):
                    ops = [['regions']]
                    for ts in range(0, 10):
                        for te in range(ts + 1, 11):
                            ops += [['reset'], ['ins', c, ts, te, 1], ['get']]
                    for i in range(0, 12):
                        ops += [['getregion', i], ['getchrom', i]]
                    yield Case(sx.dump(['bcov', b, ['regs', [c, s, e]], ['ops'] + ops]), nb(s, e, b) >= 2, 'exhaustive')


def classify(case, impl, model):
    o = sx.parse(case)
    if 'none' in model and 'none' not in impl.replace('(r', ''):
        pass
    return 'mismatch'


def explain(case, impl, model):
    return 'a bin counter / bin geometry / index lookup differs from the proved model'

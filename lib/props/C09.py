"""C09: sort chunks survive short writes, short reads and surface I/O errors."""
import sx
from common import Case

ID = 'C09'
RULE = ('chunk cases: a sequence of byte-blob records (payload sizes 0 .. 70000 bytes, below and above the 8 KiB BufWriter '
        'buffer) dumped through the hook to a fault-injecting storage and read back through ExternalChunk; fault plans '
        'over the write calls (accept k of n, Ok(0), Interrupted, hard error) and the read calls (return k of n, '
        'Interrupted, hard error): every single fault at every call index exhaustively for a fixed record sequence, then '
        'random multi-fault plans; writer bare and behind BufWriter / reader bare and behind BufReader (both compared exactly with the model: stored bytes and '
        'item sequence; BufWriter and BufReader are modelled in BufModel.v), and behind the lz4 encoder / decoder (judged by the '
        'extracted outcome oracle chunk_oracle on the observed outcome); '
        'storage that lost its tail before the read (cut inside a payload / a header / on a record boundary); non-trivial = the plan actually fired (a short count, interrupt or error was delivered); distinct by case text')
UNIQUE_NOTE = 'dump_ok / read_frames (bare storage: exact); chunk_oracle for the wrapped stacks'
EXHAUSTIVE = {'quick': False, 'thorough': True}
FIXED = [(0, 1), (3, 7), (250, 9), (251, 2), (8191, 3), (8192, 4), (20000, 5), (70000, 6)]


def mk(stack, items, wplan, rplan, cut=0):
    c = ['chunk', stack, ['items'] + [[n, s] for n, s in items], ['wplan'] + wplan, ['rplan'] + rplan]
    if cut:
        c.append(['cut', cut])
    return sx.dump(c)


def fires(items, wplan, rplan):
    return bool(wplan or rplan)


def gen(rng, tier):
    stacks = ['bare', 'buf', 'lz4']
    small = [(0, 1), (3, 7), (300, 9), (9000, 2)]
    # single faults, every call index (2 write calls and 2+ read calls per record on the bare stack)
    seq = FIXED if tier == 'thorough' else small
    ncalls = 2 * len(seq) + 2
    for stack in stacks:
        yield Case(mk(stack, seq, [], []), False, 'nofault-' + stack)
        for i in range(ncalls):
            for op in ([['acc', 1], ['acc', 5], ['acc', 4096], 'zero', 'intr', 'err'] if tier == 'thorough' else [['acc', 1], ['acc', 4096], 'intr', 'err']):
                yield Case(mk(stack, seq, [['acc', 100000]] * i + [op], []), True, 'single-w-' + stack)
        for i in range(ncalls + (6 if tier == 'thorough' else 2)):
            for op in ([['give', 1], ['give', 3], ['give', 4096], 'intr', 'err'] if tier == 'thorough' else [['give', 1], 'intr', 'err']):
                yield Case(mk(stack, seq, [], [['give', 100000]] * i + [op]), True, 'single-r-' + stack)
    # the storage lost its last k bytes before the chunk is read back (cut inside a payload, inside a header, on a boundary)
    for stack in ('bare', 'buf'):
        for k in ([1, 2, 7, 8, 9, 12, 300, 309, 9000] if tier == 'thorough' else [1, 8, 9, 300, 9004]):
            yield Case(mk(stack, small, [], [], cut=k), True, 'cut-' + stack)
            yield Case(mk(stack, small, [], [['give', 3]], cut=k), True, 'cut-' + stack)
    # every serialized record size around one byte / two bytes of length (240..270 and 65520..65545 payload bytes, i.e.
    # serialized sizes across 255 / 256 and 65535 / 65536): formats that reserve a marker value for the length collide here
    for stack in stacks:
        yield Case(mk(stack, [(n0, n0 % 251) for n0 in range(236, 272)], [], []), False, 'sizes-around-255-' + stack)
        yield Case(mk(stack, [(n0, n0 % 251) for n0 in range(110, 140)], [], []), False, 'sizes-around-128-' + stack)
        yield Case(mk(stack, [(n0, n0 % 251) for n0 in range(16372, 16392)], [], []), False, 'sizes-around-16384-' + stack)
        for base in ([65500, 65530] if tier == 'quick' else [65500, 65510, 65520, 65530, 65536]):
            yield Case(mk(stack, [(n0, n0 % 251) for n0 in range(base, base + 10)], [], []), False, 'sizes-around-65535-' + stack)
    # several records above 1 MiB in one chunk (equal and different sizes, different contents), no faults and one short read
    M = 1 << 20
    for k in range(3 if tier == 'quick' else 12):
        stack = stacks[k % 3]
        a0 = M + rng.choice([1, 8, 9, 4096, 70000])
        items = [(a0, 10), (rng.choice([3, 0, 8192]), 5), (a0, 20), (a0 + rng.choice([0, 1, 7]), 30)]
        rng.shuffle(items)
        yield Case(mk(stack, items, [], [] if k % 2 == 0 else [['give', 100000], ['give', 5]]), k % 2 == 1, 'several-above-1MiB-' + stack)
    # one production chunk (through the real sorter) holding more than 2^20 records, compressed: judged inside the harness
    # (complete and in order, or an error reported); thorough tier / whenever an anchored file differs
    if tier == 'thorough':
        yield Case(sx.dump(['xsortquota', 2000000, 1, 10**12, (1 << 20) + rng.randint(1, 2000)]), True, 'million-records-one-chunk')
    n = 500 if tier == 'quick' else 12000
    for _ in range(n):
        stack = rng.choice(stacks)
        items = [(rng.choice([0, 1, 3, 250, 251, 300, 5000, 8184, 8191, 8192, 8200, 20000, 66000]), rng.randint(0, 255)) for _ in range(rng.randint(0, 5))]
        def plan(ops, m):
            out = []
            for _k in range(rng.randint(0, m)):
                r = rng.random()
                if r < 0.6:
                    out.append([ops[0], rng.choice([1, 2, 7, 100, 4096, 8192, 100000])])
                elif r < 0.85:
                    out.append('intr')
                elif r < 0.95:
                    out.append('err')
                else:
                    out.append('zero' if ops[0] == 'acc' else 'err')
            return out
        wplan = plan(['acc'], 8) if rng.random() < 0.7 else []
        rplan = plan(['give'], 10) if rng.random() < 0.7 else []
        if 'zero' in rplan:
            rplan = [x for x in rplan if x != 'zero']
        yield Case(mk(stack, items, wplan, rplan), fires(items, wplan, rplan), 'random-' + stack)


def canon(case, out):
    try:
        return sx.parse(out)
    except Exception:
        return out


def agree(case, impl, model):
    if case.startswith('(xsortquota'):
        return impl in ('(r oracle-only reported)', '(r oracle-only complete)')
    if 'oracle-only' in model:
        return True          # lz4 stack: decided by the oracle below
    return canon(case, impl) == canon(case, model)


def oracle_line(case, impl, model, bad):
    """wrapped stacks: the extracted chunk_oracle judges the observed outcome"""
    if case.startswith('(xsortquota'):
        return None
    c = sx.parse(case)
    if 'oracle-only' not in model:
        # bare / BufWriter stacks are compared EXACTLY with the model first (stored bytes, item sequence).  That also fixes
        # the sequence of write / read calls, which the property does not: a rewrite that issues its calls differently
        # (header and payload in one write_all, another buffer size) meets the faults of a plan at other places and may
        # legitimately end differently.  So a disagreement is not yet a violation: the extracted outcome oracle decides
        # on what was observed (dump result, records read back, whether the plan held a hard fault).
        if not bad or 'ORACLE-FAIL' in impl or 'panic' in impl or 'abort' in impl:
            return None
        try:
            o = sx.parse(impl)
            d = [x for x in o if isinstance(x, list) and x[0] == 'dump'][0][1]
            got = [x for x in o if isinstance(x, list) and x[0] == 'items']
            got = ['got'] + (got[0][1:] if got else [])
        except Exception:
            return None
        # storage that lost its tail counts as a hard fault: a reader that reports an error where the pinned code ends
        # silently (cut inside a length header) is accepted, one that ends silently where an error is due is not
        hard = any(x in ('err', 'zero') for x in c[3][1:] + c[4][1:]) or len(c) > 5
        return sx.dump(['chunkchk', c[2], 1 if d == 'ok' else 0, got, 1 if hard else 0])
    try:
        if 'ORACLE-FAIL' in impl:
            raise ValueError('a harness-level oracle failed')
        o = sx.parse(impl)
        d = [x for x in o if isinstance(x, list) and x[0] == 'dump'][0][1]
        got = [x for x in o if isinstance(x, list) and x[0] == 'got'][0]
    except Exception:
        return '(chunkchk (items) 1 (got deerr) 0)'      # panic / malformed output: never accepted
    hard = any(x in ('err', 'zero') for x in c[3][1:] + c[4][1:])
    return sx.dump(['chunkchk', c[2], d, got, 1 if hard else 0])


def classify(case, impl, model):
    return 'mismatch'


def explain(case, impl, model):
    return 'records were lost, truncated or altered without an error (or the outcome differs from the proved model on bare storage)'

"""C09: sort chunks survive short writes, short reads and surface I/O errors."""
import sx
from common import Case

ID = 'C09'
RULE = ('chunk cases: a sequence of byte-blob records (payload sizes 0 .. 70000 bytes, below and above the 8 KiB BufWriter '
        'buffer) dumped through the hook to a fault-injecting storage and read back through ExternalChunk; fault plans '
        'over the write calls (accept k of n, Ok(0), Interrupted, hard error) and the read calls (return k of n, '
        'Interrupted, hard error): every single fault at every call index exhaustively for a fixed record sequence, then '
        'random multi-fault plans; writer bare and behind BufWriter / reader bare and behind BufReader (both compared exactly with the model: stored bytes and '
        'item sequence; BufWriter and BufReader are modelled in BufModel.v), and behind the lz4 encoder / decoder (judged by the '
        'extracted outcome oracle chunk_oracle on the observed outcome); '
        'storage that lost its tail before the read (cut inside a payload / a header / on a record boundary); non-trivial = the plan actually fired (a short count, interrupt or error was delivered); distinct by case text')
UNIQUE_NOTE = 'dump_ok / read_frames (bare storage: exact); chunk_oracle for the wrapped stacks'
EXHAUSTIVE = {'quick': False, 'thorough': True}
FIXED = [(0, 1), (3, 7), (250, 9), (251, 2), (8191, 3), (8192, 4), (20000, 5), (70000, 6)]


def mk(stack, items, wplan, rplan, cut=0):
    c = ['chunk', stack, ['items'] + [[n, s] for n, s in items], ['wplan'] + wplan, ['rplan'] + rplan]
    if cut:
        c.append(['cut', cut])
    return sx.dump(c)


def fires(items, wplan, rplan):
    return bool(wplan or rplan)


def gen(rng, tier):
    stacks = ['bare', 'buf', 'lz4']
    small = [(0, 1), (3, 7), (300, 9), (9000, 2)]
    # single faults, every call index (2 write calls and 2+ read calls per record on the bare stack)
    seq = FIXED if tier == 'thorough' else small
    ncalls = 2 * len(seq) + 2
    for stack in stacks:
        yield Case(mk(stack, seq, [], []), False, 'nofault-' + stack)
        for i in range(ncalls):
            for op in ([['acc', 1], ['acc', 5], ['acc', 4096], 'zero', 'intr', 'err'] if tier == 'thorough' else [['acc', 1], ['acc', 4096], 'intr', 'err']):
                yield Case(mk(stack, seq, [['acc', 100000]] * i + [op], []), True, 'single-w-' + stack)
        for i in range(ncalls + (6 if tier == 'thorough' else 2)):
            for op in ([['give', 1], ['give', 3], ['give', 4096], 'intr', 'err'] if tier == 'thorough' else [['give', 1], 'intr', 'err']):
                yield Case(mk(stack, seq, [], [['give', 100000]] * i + [op]), True, 'single-r-' + stack)
    # the storage lost its last k bytes before the chunk is read back (cut inside a payload, inside a header, on a boundary)
    for stack in ('bare', 'buf'):
        for k in ([1, 2, 7, 8, 9, 12, 300, 309, 9000] if tier == 'thorough' else [1, 8, 9, 300, 9004]):
            yield Case(mk(stack, small, [], [], cut=k), True, 'cut-' + stack)
            yield Case(mk(stack, small, [], [['give', 3]], cut=k), True, 'cut-' + stack)
    n = 500 if tier == 'quick' else 12000
    for _ in range(n):
        stack = rng.choice(stacks)
        items = [(rng.choice([0, 1, 3, 250, 251, 300, 5000, 8184, 8191, 8192, 8200, 20000, 66000]), rng.randint(0, 255)) for _ in range(rng.randint(0, 5))]
        def plan(ops, m):
            out = []
            for _k in range(rng.randint(0, m)):
                r = rng.random()
                if r < 0.6:
                    out.append([ops[0], rng.choice([1, 2, 7, 100, 4096, 8192, 100000])])
                elif r < 0.85:
                    out.append('intr')
                elif r < 0.95:
                    out.append('err')
                else:
                    out.append('zero' if ops[0] == 'acc' else 'err')
            return out
        wplan = plan(['acc'], 8) if rng.random() < 0.7 else []
        rplan = plan(['give'], 10) if rng.random() < 0.7 else []
        if 'zero' in rplan:
            rplan = [x for x in rplan if x != 'zero']
        yield Case(mk(stack, items, wplan, rplan), fires(items, wplan, rplan), 'random-' + stack)


def canon(case, out):
    try:
        return sx.parse(out)
    except Exception:
        return out


def agree(case, impl, model):
    if 'oracle-only' in model:
        return True          # lz4 stack: decided by the oracle below
    return canon(case, impl) == canon(case, model)


def oracle_line(case, impl, model, bad):
    """wrapped stacks: the extracted chunk_oracle judges the observed outcome"""
    if 'oracle-only' not in model:
        return None
    c = sx.parse(case)
    try:
        o = sx.parse(impl)
        d = [x for x in o if isinstance(x, list) and x[0] == 'dump'][0][1]
        got = [x for x in o if isinstance(x, list) and x[0] == 'got'][0]
    except Exception:
        return '(chunkchk (items) 1 (got deerr) 0)'      # panic / malformed output: never accepted
    hard = any(x in ('err', 'zero') for x in c[3][1:] + c[4][1:])
    return sx.dump(['chunkchk', c[2], d, got, 1 if hard else 0])


def classify(case, impl, model):
    return 'mismatch'


def explain(case, impl, model):
    return 'records were lost, truncated or altered without an error (or the outcome differs from the proved model on bare storage)'

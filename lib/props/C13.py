"""C13: overlap, n_overlap, len and compare follow half-open set semantics."""
import recgen as R
import lapgen as G
import sx
from common import Case
from C05 import canon

ID = 'C13'
RULE = ('alg cases: triples of records over a small coordinate alphabet and the u64 extremes (same / different chromosome, '
        'names that are prefixes of each other, disjoint, adjacent, overlapping by one base, nested, identical, '
        'zero-length, end < start), viewed as GenomicRange, BED<6> and NarrowPeak; outputs: len, overlap both ways, '
        'n_overlap both ways, compare on all pairs (trait method, derived Ord, via to_genomic_range); non-trivial = same '
        'chromosome for a and b; distinct by case text')
UNIQUE_NOTE = 'overlap_spec / compare_total_order: every output is a function of the three records'
EXHAUSTIVE = {'thorough': True}


def rec(rng, mode, chroms):
    s, e = G.rand_iv(rng, mode, 'any' if rng.random() < 0.25 else 'le')
    return (rng.choice(chroms), s, e)


def gen(rng, tier):
    n = 3000 if tier == 'quick' else 60000
    for _ in range(n):
        mode = rng.choice(['small', 'small', 'small', 'wide'])
        chroms = R.chrom_set(rng, rng.choice([1, 1, 2, 3]))
        a, b, c = rec(rng, mode, chroms), rec(rng, mode, chroms), rec(rng, mode, chroms)
        if rng.random() < 0.1:
            b = a
        if rng.random() < 0.1:
            b = (a[0], a[2], max(a[2], b[2]))          # adjacent
        t = rng.choice(['ggg', 'gbn', 'nbg', 'bng'])
        yield Case(sx.dump(['alg', t, [R.h(a[0]), a[1], a[2]], [R.h(b[0]), b[1], b[2]], [R.h(c[0]), c[1], c[2]]]), a[0] == b[0], mode)
    if tier == 'thorough':
        # all pairs over coordinates 0..4 on same / different chromosome
        ch = [R.h(b'chr1'), R.h(b'chr10')]
        for (s1, e1) in [(x, y) for x in range(5) for y in range(5)]:
            for (s2, e2) in [(x, y) for x in range(5) for y in range(5)]:
                for cb in ch:
                    yield Case(sx.dump(['alg', 'ggg', [ch[0], s1, e1], [cb, s2, e2], [ch[1], s2, e1]]), cb == ch[0], 'exhaustive')


def classify(case, impl, model):
    return 'mismatch'


def explain(case, impl, model):
    return 'overlap / n_overlap / len / compare differs from the proved model'

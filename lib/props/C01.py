"""C01: the external sort yields the sorted permutation of its input."""
import sx
from common import Case

ID = 'C01'
RULE = ('xsort cases: (key, id, payload) records with keys from a small alphabet (arbitrary ties), already sorted / reversed / '
        'random, length 0, 1, k*chunk-1 / k*chunk / k*chunk+1; chunk size in {0,1,2,3,len-1,len,len+1,2len,default}, '
        'num_threads in {1,2,5,default}, compression in {none,0,1,4,9,16}; comparator on the key, natural or reversed; some '
        'payloads above the 8 KiB write buffer and above one lz4 block; len() before the first next and the output sequence '
        'are compared with the model after canonicalising the order inside runs of equal keys; payload bytes are checked to '
        'be unaltered; non-trivial = >= 2 runs and a comparator tie or a record > 8 KiB; distinct by case text')
UNIQUE_NOTE = 'ext_sort_ok: sorted + permutation fixes the tie-canonical sequence'
EXHAUSTIVE = {}
from C10 import canon as _c10canon


def gen_codec(rng, tier):
    """the bincode bytes a record is spilled as, and their deserialization (field-for-field)"""
    import textgen as T
    n = 300 if tier == 'quick' else 8000
    for _ in range(n):
        t = rng.choice(T.TYPES)
        r = T.rand_record(rng, t)
        yield Case(sx.dump(['ser', t, r]), t not in ('gr', 'bed3'), 'codec-' + t)


def gen(rng, tier):
    yield from gen_codec(rng, tier)
    yield from gen_recs(rng, tier)
    yield from gen_two(rng, tier)
    n = 250 if tier == 'quick' else 6000
    nid = 0
    for _ in range(n):
        L = rng.choice([0, 1, 2, 3, 5, 8, 13, 30, 64])
        base = rng.choice([1, 2, 3, 4, 7])
        if rng.random() < 0.4:
            L = base * rng.randint(0, 5) + rng.choice([-1, 0, 1])
            L = max(0, L)
        cs = rng.choice([0, 1, 2, 3, base, max(0, L - 1), L, L + 1, 2 * L, 'default'])
        threads = rng.choice([1, 2, 5, 'default'])
        comp = rng.choice(['none', 'none', 0, 1, 4, 9, 16])
        rev = rng.choice([0, 0, 1])
        items = []
        big = False
        for _i in range(L):
            nid += 1
            pad = 0
            r = rng.random()
            if r < 0.04:
                pad = rng.choice([8200, 20000, 70000]); big = True
            elif r < 0.3:
                pad = rng.randint(0, 40)
            items.append([rng.randint(0, 5), nid % 1000000, pad])
        mode = rng.random()
        if mode < 0.15:
            items.sort(key=lambda t: t[0])
        elif mode < 0.3:
            items.sort(key=lambda t: -t[0])
        nruns = 1 if cs in ('default',) or (isinstance(cs, int) and cs >= L) else (L if cs in (0, 1) else -(-L // cs))
        keys = [t[0] for t in items]
        tie = len(set(keys)) < len(keys)
        case = ['xsort', cs, threads, comp, rev, ['items'] + items]
        if rev == 0 and rng.random() < 0.3:
            case.append('ord')
        elif rng.random() < 0.3:
            case.append('dropfirst')                 # the sorter is dropped before the returned stream is read                       # ExternalSorter::sort (T: Ord) instead of sort_by
        yield Case(sx.dump(case), nruns >= 2 and (tie or big), 'c%s' % comp)
    # every serialized record size across the one- / two- / three-byte boundaries of a variable-length size prefix
    # (payload sweeps so that the encoded tuple has 120..140, 16376..16395 bytes; a few around 2^21 in the thorough tier)
    for base_pad in ([110, 16370] if tier == 'quick' else [100, 110, 125, 16365, 16380, 2097140]):
        items = [[rng.randint(0, 5), 700000 + base_pad + i, base_pad + i] for i in range(30 if base_pad < 100000 else 20)]
        for comp in ('none', 1):
            yield Case(sx.dump(['xsort', rng.choice([4, 7, 1000]), rng.choice([1, 2]), comp, 0, ['items'] + items]), True, 'size-prefix-boundaries')
    # one record far above any plausible internal size cap (20 MiB payload)
    for _ in range(1 if tier == 'quick' else 4):
        items = [[rng.randint(0, 5), 800000 + i, 0] for i in range(8)]
        items[rng.randrange(8)][2] = 20 * 1024 * 1024 + rng.randint(0, 100)
        yield Case(sx.dump(['xsort', rng.choice([3, 100]), 1, rng.choice(['none', 1]), 0, ['items'] + items]), True, 'huge-record')
    # a disk that fills up while chunks are spilled (RLIMIT_FSIZE): an error must be reported, or everything delivered
    def vlen(x):
        return 1 if x < 251 else (3 if x < 65536 else 5)
    for _ in range(10 if tier == 'quick' else 200):
        nn = rng.choice([100, 333, 1000, 3000])
        # the harness sorts records ((i*7919) % 1009, i): with one chunk they are spilled in sorted order
        recs = sorted(((i * 7919) % 1009, i) for i in range(nn))
        offs = [0]
        for k, i in recs:
            offs.append(offs[-1] + 8 + vlen(k) + vlen(i))
        size = offs[-1]
        j = rng.randrange(1, len(offs) - 1)
        quota = rng.choice([offs[j], offs[j] + rng.randint(1, 7), offs[-2], offs[-2] + 3, size - 1, size // 2, 8192, 8191, size, size + 4096, 10**9])
        cs = rng.choice(['default', 'default', nn, nn // 2 + 1, 40])
        yield Case(sx.dump(['xsortquota', cs, rng.choice(['none', 'none', 1]), max(1, quota), nn]), True, 'quota')
    # ONE chunk holding more than 2^20 records, compressed and not (no quota hit: 10^12 bytes): anything that cuts a chunk,
    # a compressed frame or a read-ahead block at a fixed record count shows here.  Judged inside the harness like the
    # quota cases (the proved model would need minutes for a million-record insertion sort); thorough tier, and the quick
    # tier whenever an anchored source file differs from the anchors
    if tier == 'thorough':
        for comp in ('none', 1):
            yield Case(sx.dump(['xsortquota', 2000000, comp, 10**12, (1 << 20) + rng.randint(1, 2000)]), True, 'million-records-one-chunk')
    # a few large runs: par_sort_unstable_by really runs in parallel on them (several thousand items per chunk)
    for _ in range(2 if tier == 'quick' else 40):
        L = rng.choice([3000, 6000])
        items = [[rng.randint(0, 50), 900000 + i, 0] for i in range(L)]
        yield Case(sx.dump(['xsort', rng.choice([1000, 2500, 'default']), rng.choice([2, 5, 'default']), rng.choice(['none', 1]), rng.choice([0, 1]), ['items'] + items]), True, 'large-runs')


def gen_recs(rng, tier):
    """the crate's own record types (optional and float fields, long names) ordered by BEDLike::compare"""
    import textgen as T
    n = 80 if tier == 'quick' else 2500
    for _ in range(n):
        t = rng.choice(T.TYPES)
        L = rng.choice([0, 1, 2, 5, 9, 20])
        recs = []
        for i in range(L):
            r = T.rand_record(rng, t)
            # few distinct keys so that ties under compare are common
            r[0] = sx.hexs(rng.choice([b'chr1', b'chr10', b'chr2']))
            r[1] = rng.choice([0, 5, 5, 7, 2**40])
            r[2] = rng.choice([5, 9, 9, 2**41])
            if t != 'gr' and rng.random() < 0.1 and len(r) > 3 and r[3] != 'none' and t not in ('bgi', 'bgf'):
                r[3] = sx.hexs(b'n' * rng.choice([8200, 30000]))
            recs.append(r)
        keys = sorted(set((bytes.fromhex(r[0]), r[1], r[2]) for r in recs))
        rank = {k: i for i, k in enumerate(keys)}
        cs = rng.choice([0, 1, 2, 3, max(0, L - 1), L, L + 1, 'default'])
        items = [[rank[(bytes.fromhex(r[0]), r[1], r[2])], 5000 + i] + r for i, r in enumerate(recs)]
        nruns = 1 if cs == 'default' or (isinstance(cs, int) and cs >= L) else (L if cs in (0, 1) else -(-L // cs))
        yield Case(sx.dump(['xsortrec', t, cs, rng.choice([1, 2, 'default']), rng.choice(['none', 1, 4, 16]), ['recs'] + items]),
                   nruns >= 2 and len(keys) < L, 'rec-' + t)


def gen_two(rng, tier):
    """two sorts on one sorter object, the two result iterators consumed alternately"""
    n = 40 if tier == 'quick' else 1200
    nid = 0
    for _ in range(n):
        def items(L):
            nonlocal nid
            out = []
            for _i in range(L):
                nid += 1
                out.append([rng.randint(0, 5), 700000 + nid, rng.choice([0, 0, 3, 40])])
            return out
        la, lb = rng.choice([0, 1, 4, 9, 17]), rng.choice([1, 3, 8, 20])
        cs = rng.choice([1, 2, 3, 5, 'default'])
        yield Case(sx.dump(['xsort2', cs, rng.choice([1, 2]), rng.choice(['none', 1, 4]), rng.choice([0, 1]), ['items'] + items(la), ['items'] + items(lb)]),
                   cs != 'default' and la > 1 and lb > 1, 'two-sorts')


_gen_kid = None


def agree(case, impl, model):
    if case.startswith('(xsortquota'):
        return impl in ('(r oracle-only reported)', '(r oracle-only complete)')
    return canon(case, impl) == canon(case, model)


def canon(case, out):
    try:
        o = sx.parse(out)
    except Exception:
        return out
    res = []
    for x in o:
        if isinstance(x, list) and x and x[0] == 'out':
            res.append(_c10canon(case, sx.dump(['r', ['calls'] + x[1:]]))[1])
        else:
            res.append(x)
    return res


def classify(case, impl, model):
    return 'mismatch'


def explain(case, impl, model):
    return 'output is not the sorted permutation of the input (or len() is wrong, or a payload was altered)'

"""C04: Reader and Writer preserve a record stream line for line."""
import sx
import textgen as T
from common import Case
from C12 import agree as _agree12, canon


def _erase(o):
    """Through the Reader a ParseError is only visible as the TEXT of an io::Error of kind Other; C04 asks for "an error
    for a malformed or blank line", not for a particular wording, so every such error is one class here (the ParseError
    variants themselves are compared by C12 on `parse` cases, where they are API).  Neither does it fix the
    io::ErrorKind a parse error is wrapped in, so an error is an error."""
    if isinstance(o, list):
        if len(o) == 2 and o[0] == 'err':
            return ['err', 'some']
        return [_erase(x) for x in o]
    return o


def agree(case, impl, model):
    if case.startswith('(wrfail'):
        return impl == '(r oracle-only ok)'
    if case.startswith('(read') or case.startswith('(wr'):
        return _erase(canon(case, impl)) == _erase(canon(case, model))
    return _agree12(case, impl, model)

ID = 'C04'
RULE = ('read cases: byte streams assembled from valid lines of one record type, malformed lines, blank lines and '
        'skip-prefixed lines (prefix none, "#", "track", multi-byte), terminator LF or CRLF per line, last line possibly '
        'unterminated, delivered through a Read that fragments by a cyclic plan of sizes (1-byte reads, splits inside UTF-8 '
        'sequences and between CR and LF); wr cases: records written with Writer (bytes compared), re-terminated per line, '
        'read back; records() and into_records() must agree and the iterator must stay ended; skiprun: 10^5 (quick) / 10^6 '
        '(thorough) consecutive skipped lines on a 256 KiB stack; non-trivial = a skipped line, a CRLF, a malformed line and '
        'fragments shorter than a line; a few lines longer than the reader buffer (8 KiB .. 128 KiB); distinct by case text')
UNIQUE_NOTE = 'reader_refines: the item sequence is a function of the byte stream and the prefix'
EXHAUSTIVE = {}
PREFIXES = [None, None, b'#', b'track', '§'.encode(), b'chr']
PLANS = [[], [1], [2, 3], [1, 7, 2], [4096], [5, 1, 1], [3]]


def gen(rng, tier):
    n = 1200 if tier == 'quick' else 30000
    specs = []
    for k in range(n):
        t = rng.choice(T.TYPES)
        recs = [T.rand_record(rng, t) for _ in range(rng.randint(0, 6))]
        if recs and rng.random() < (0.03 if tier == 'quick' else 0.008):
            # a line longer than the reader's buffer (8 KiB by default; also 64 KiB and 128 KiB variants): chromosome name of
            # 8185..8200, 9000, 66000 or 131080 bytes
            j = rng.randrange(len(recs))
            recs[j] = list(recs[j]); recs[j][0] = sx.hexs(b'L' * rng.choice([8185, 8191, 8192, 8193, 8200, 9000, 66000, 131080]))
        specs.append((t, recs))
    allbits = [b for t, rs in specs for r in rs for b in T.record_floats(t, r)] + [T.NEG_ONE]
    ft, _ = T.float_tables(allbits, [])
    cases = []
    toks = set()
    for k, (t, recs) in enumerate(specs):
        prefix = rng.choice(PREFIXES)
        plan = rng.choice(PLANS) if rng.random() < 0.8 else [rng.randint(1, 9) for _ in range(rng.randint(1, 4))]
        if k % 3 == 0:
            # writer round trip
            terms = [rng.choice(['lf', 'lf', 'crlf']) for _ in recs]
            if terms and rng.random() < 0.3:
                terms[-1] = 'none'
            fl = set(b for r in recs for b in T.record_floats(t, r))
            lines = [T.std_line(t, r, ft) for r in recs]
            cases.append(('wr', t, prefix, recs, terms, plan, fl, lines))
            for l in lines:
                toks.update(sx.hexs(x) for x in l.split(b'\t'))
        else:
            lines = []
            kinds = set()
            for r in recs:
                lines.append(T.std_line(t, r, ft)); kinds.add('valid')
            for _ in range(rng.randint(0, 4)):
                r = rng.random()
                base = T.std_line(t, rng.choice(recs), ft) if recs else b'chr1\t5\t9\tn\t7\t+\t1\t2\t3\t4'
                if r < 0.35 and prefix:
                    l = prefix + rng.choice([b'', b' comment', b'\tx\ty', base]); kinds.add('skip')
                elif r < 0.55:
                    l = b''; kinds.add('blank')
                else:
                    l = T.mutate(rng, base); kinds.add('bad')
                lines.insert(rng.randint(0, len(lines)), l)
            if prefix and rng.random() < 0.2:
                for _ in range(rng.randint(2, 30)):
                    lines.insert(rng.randint(0, len(lines)), prefix + b'run')
                kinds.add('skip')
            data = b''
            for i, l in enumerate(lines):
                try:
                    l.decode('utf-8')
                except UnicodeDecodeError:
                    l = b'bad'
                if b'\n' in l:
                    l = l.replace(b'\n', b' ')
                term = rng.choice([b'\n', b'\n', b'\r\n'])
                if term == b'\r\n':
                    kinds.add('crlf')
                if i == len(lines) - 1 and rng.random() < 0.3:
                    term = b''
                data += l + term
                toks.update(sx.hexs(x) for x in l.split(b'\t'))
                toks.update(sx.hexs(x) for x in (l + b'\r').split(b'\t'))
            nt = {'skip', 'crlf', 'bad'} <= kinds and plan and max(plan) < 8
            cases.append(('read', t, prefix, data, plan, nt))
    _, pt = T.float_tables([], toks)
    for c in cases:
        if c[0] == 'wr':
            _, t, prefix, recs, terms, plan, fl, lines = c
            ptoks = set(sx.hexs(x) for l in lines for x in l.split(b'\t')) | set(sx.hexs(x + b'\r') for l in lines for x in l.split(b'\t')[-1:])
            pt1 = {k: pt.get(k, 'none') for k in ptoks}
            yield Case(sx.dump(['wr', t, sx.hexs(prefix) if prefix else 'none', ['recs'] + recs, ['terms'] + terms, ['frag'] + plan,
                                T.ftab_sx({b: ft[b] for b in fl | {T.NEG_ONE}}), T.ptab_sx(pt1)]), len(recs) >= 2 and 'crlf' in terms, t)
        else:
            _, t, prefix, data, plan, nt = c
            ptoks = set()
            for l in data.split(b'\n'):
                for v in (l, l[:-1] if l.endswith(b'\r') else l):
                    ptoks.update(sx.hexs(x) for x in v.split(b'\t'))
            _miss = [k for k in ptoks if k not in pt]
            pt1 = {k: pt.get(k, 'none') for k in ptoks}
            yield Case(sx.dump(['read', t, sx.hexs(prefix) if prefix else 'none', sx.hexs(data), ['frag'] + plan, T.ptab_sx(pt1)]), bool(nt), t)
    # Writer over a sink whose k-th write call fails: records reported Ok (and only those) must be in the output
    for _ in range(40 if tier == 'quick' else 800):
        t = rng.choice(['gr', 'bed3', 'bed6', 'bgi'])
        recs = [T.rand_record(rng, t) for _i in range(rng.randint(2, 8))]
        yield Case(sx.dump(['wrfail', t, ['recs'] + recs, rng.randint(1, 2 * len(recs) + 1)]), True, 'wrfail')
    yield Case(sx.dump(['skiprun', 100000 if tier == 'quick' else 1000000, sx.hexs(b'#'), sx.hexs(b'chr1\t1\t2\n')]), True, 'skiprun')
    yield Case(sx.dump(['skiprun', 3, sx.hexs(b'track'), sx.hexs(b'chr1\t1\t2')]), True, 'skiprun')


def classify(case, impl, model):
    if case.startswith('(skiprun') and impl.startswith('(abort'):
        return 'skipped-run-exhausts-stack'
    from C12 import classify as c12
    return c12(case, impl, model)


def explain(case, impl, model):
    if impl.startswith('(abort'):
        return 'the process died (stack exhaustion) while skipping consecutive prefixed lines'
    return 'item sequence differs from the proved model (one item per non-skipped line, in order)'

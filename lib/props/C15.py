"""C15: the external sort leaves no temporary files behind."""
import sx
from common import Case

ID = 'C15'
RULE = ('tmp cases: one lifetime of a sorter in a fresh directory that already holds a file and a sub-directory: chunk '
        'size / threads / compression as in C01, n input items, exit in {returned after k items consumed, panic in the '
        'input iterator at item k, panic in the comparator at call k}, drop order {iterator first, sorter first}, directory '
        'given explicitly (TMPDIR then points elsewhere and is watched too), through TMPDIR, naming a directory that does not exist (build must fail and create nothing), a directory whose name is not valid UTF-8, or a RELATIVE path while the process changes its working directory before the drops; the builder calls are issued in a random order; recursive listings are taken before build, after build, inside the input '
        'iterator, after sort_by, after partial consumption, between the two drops and at the end, together with the files the process holds open under the scratch root (/proc/self/fd: unlinked chunk files are invisible to listings); a few lifetimes spill a chunk above 1 MiB; the extracted oracle '
        'tmp_ok / tmp_open_ok judge them (every open file lives under the configured directory; everything created lives under one new top-level directory with no visible children; the final '
        'listing equals the initial one); non-trivial = at least 2 chunks were spilled; distinct by case text')
UNIQUE_NOTE = 'tmp_restored / tmp_confined on the abstract resource model; listings judged by tmp_ok'
EXHAUSTIVE = {}


def gen(rng, tier):
    n = 150 if tier == 'quick' else 3000
    for it in range(n):
        N = rng.choice([0, 1, 5, 12, 40])
        if it % 60 == 7:
            N = 200000          # a spilled chunk above 1 MiB (anything that treats big chunks differently)
        cs = rng.choice([1, 2, 3, 7, 'default', 100]) if N < 1000 else rng.choice(['default', 150000])
        threads = rng.choice([1, 2, 'default'])
        comp = rng.choice(['none', 'none', 1, 4])
        steps = [['dir']]
        if cs != 'default': steps.append(['cs', cs])
        if threads != 'default': steps.append(['threads', threads])
        if comp != 'none': steps.append(['comp', comp])
        rng.shuffle(steps)                      # builder calls in any order
        exit_ = rng.choice(['returned', 'returned', 'returned', 'panic_input', 'panic_cmp'])
        k = rng.randint(0, max(1, min(N, 50)))
        order = rng.choice(['iter_first', 'sorter_first'])
        where = rng.choice(['dir', 'dir', 'dir', 'dir', 'env', 'missing', 'nonutf8', 'relchdir'])
        chunks = (1 if N else 0) if cs == 'default' else -(-N // cs)
        yield Case(sx.dump(['tmp', ['steps'] + steps, N, exit_, k, order, where]), chunks >= 2, exit_ + '-' + where)


def canon(case, out):
    return out


def agree(case, impl, model):
    return True


def oracle_line(case, impl, model, bad):
    if 'ORACLE-FAIL' in impl or 'panic' in impl.split('(before')[0]:
        return '(tmpchk 63 (before 61) (during) (after) (opens))'     # a harness-level oracle failed: never accepted
    try:
        o = sx.parse(impl)
        d = {x[0]: x for x in o if isinstance(x, list)}
        return sx.dump(['tmpchk', d['cfg'][1], d['before'], d['during'], d['after'], d['opens']])
    except Exception:
        return '(tmpchk 63 (before 61) (during) (after) (opens))'     # malformed / panicked harness output: never accepted


def classify(case, impl, model):
    return 'mismatch'


def explain(case, impl, model):
    return 'a temporary entry was left behind, or something was created outside the sorter\'s own directory'

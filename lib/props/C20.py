"""C20: depth() run-length encodes pointwise interval depth."""
import lapgen as G
import sx
from common import Case
from C16 import canon

ID = 'C20'
RULE = ('lap scripts over multisets of NON-EMPTY intervals with coordinates <= 300 (u64 instance) or <= 255 (u8 instance, '
        'incl. stop = 255 = type maximum): empty set, single interval, start 0, duplicates, nested stacks, book-ended chains, '
        'separated clusters; optional insert/merge history; depth() collected to the end; non-trivial = at least two runs '
        'expected (a depth change or two clusters); distinct by case text')
UNIQUE_NOTE = 'depth_rle + depth_rle_unique: the run-length encoding of the depth function is unique'
EXHAUSTIVE = {}


def runs_expected(cur):
    if not cur:
        return 0
    pts = sorted(set(x for iv in cur for x in iv))
    return len(pts) - 1


def gen(rng, tier):
    n = 1200 if tier == 'quick' else 25000
    for k in range(n):
        r = rng.random()
        mode = 'small' if r < 0.5 else ('u8' if r < 0.78 else ('dense' if r < 0.84 else 'medium'))
        ivs = G.rand_ivs(rng, mode, rng.choice([0, 1, 1, 2, 3, 4, 6, 9]), 'ne')
        if mode == 'u8' and rng.random() < 0.3:
            ivs.append((rng.randint(200, 254), 255))
        if rng.random() < 0.1:
            ivs = [(0, rng.randint(1, 5))] + ivs
        cur = list(ivs)
        ops = []
        nid = len(ivs)
        for _ in range(rng.choice([0, 0, 0, 1, 2])):
            if rng.random() < 0.7:
                s, e = G.rand_ivs(rng, mode, 1, 'ne')[0]
                ops.append(['ins', s, e, nid]); nid += 1; cur.append((s, e))
            else:
                ops.append(['merge'])
        ops.append(['depth'])
        if rng.random() < 0.2:
            ops.append(['depth'])
        yield Case(G.case(mode, ivs, ops), runs_expected(cur) >= 2, mode)
    if tier == 'thorough':
        for ivs in G.small_multisets(3, 5, 'ne'):
            yield Case(G.case('small', ivs, [['depth']]), runs_expected(ivs) >= 2, 'exhaustive')


def classify(case, impl, model):
    o = sx.parse(case)
    ivs = o[2][1:]
    if not ivs and 'panic' in impl:
        return 'depth-empty-set-panics'
    return 'mismatch'


def explain(case, impl, model):
    return 'depth() output differs from the run-length encoding of the pointwise depth computed by the proved model'

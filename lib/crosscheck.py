"""In-Coq re-evaluation of a sample of `lap` cases (thorough tier of C16..C20): each sampled case and the answer the
EXTRACTED runner gave for it are written as `Example … : run_lap W ivs ops = <runner's answer>. Proof. vm_compute.
reflexivity. Qed.` and compiled by coqc against coq/LapRun.v.  A failure means the extracted OCaml program (or the OCaml
glue around it) and the Gallina model disagree — a defect of the machinery, not of the repository."""
import os, subprocess
import sx


def iv(t):
    return '(mkiv %s %s %s)' % (t[0], t[1], t[2])


def ivlist(l):
    return '[' + '; '.join(iv(t) for t in l) + ']'


def lop(o):
    if o[0] == 'ins': return '(Insert %s)' % iv(o[1:4])
    if o[0] == 'merge': return 'Merge'
    if o[0] == 'setcov': return 'SetCov'
    raise ValueError(o)


def sop(o):
    h = o[0]
    if h == 'ins': return '(SIns %s)' % iv(o[1:4])
    if h == 'merge': return 'SMerge'
    if h == 'setcov': return 'SSetCov'
    if h == 'cur0': return 'SCur0'
    if h == 'find': return '(SFind %s %s)' % (o[1], o[2])
    if h == 'seek': return '(SSeek %s %s)' % (o[1], o[2])
    if h == 'count': return '(SCount %s %s)' % (o[1], o[2])
    if h == 'cov': return 'SCov'
    if h == 'len': return 'SLen'
    if h == 'isempty': return 'SIsEmpty'
    if h == 'ivs': return 'SIvs'
    if h == 'depth': return 'SDepth'
    if h == 'ivcmp': return '(SIvCmp %s %s)' % (iv(o[1]), iv(o[2]))
    if h == 'ui': return '(SUI %s [%s])' % (ivlist(o[1][1:]), '; '.join(lop(x) for x in o[2][1:]))
    raise ValueError(o)


def sout(ops, outs):
    """runner output items -> Gallina terms; needs the ops to tell a `count` (RNat) from other numbers"""
    emitting = [o for o in ops if o[0] in ('find', 'seek', 'count', 'cov', 'len', 'isempty', 'ivs', 'depth', 'ivcmp', 'ui')]
    res = []
    for k, x in enumerate(outs):
        if x == 'panic':
            res.append('RPanic'); break
        op = emitting[k][0]
        if op in ('find', 'seek'): res.append('(RHits %s)' % ivlist(x[1:]))
        elif op in ('count', 'cov', 'len'): res.append('(RNat %s)' % x)
        elif op == 'isempty': res.append('(RBool %s)' % ('true' if x == '1' else 'false'))
        elif op == 'ivs': res.append('(RIvs %s)' % ivlist(x[1:]))
        elif op == 'depth': res.append('(RDepth %s)' % ivlist(x[1:]))
        elif op == 'ivcmp': res.append('(RIvCmp %s %s)' % ('true' if x[1] == '1' else 'false', {'eq': 'Eq', 'lt': 'Lt', 'gt': 'Gt'}[x[2]]))
        elif op == 'ui': res.append('(RUI %s %s)' % (x[1], x[2]))
    return '[' + '; '.join(res) + ']'


def run(coqdir, rundir, cases, model_outs, limit=40):
    """cases: lap case texts; model_outs: the extracted runner's output lines.  Returns (n_checked, failure text or None)."""
    lines = ['From BedV Require Import Base LapperModel LapRun.']
    n = 0
    for c, m in zip(cases, model_outs):
        if n >= limit:
            break
        try:
            cs, ms = sx.parse(c), sx.parse(m)
            if cs[0] != 'lap' or ms[0] != 'r' or len(c) > 3000:
                continue
            ops = [o for o in cs[3][1:] if o[0] not in ('reload', 'clone')]      # identity on the model
            lines.append('Example x%d : run_lap %s %s [%s] = %s.\nProof. vm_compute. reflexivity. Qed.' % (
                n, cs[1], ivlist(cs[2][1:]), '; '.join(sop(o) for o in ops), sout(ops, ms[1:])))
            n += 1
        except Exception:
            continue
    if n == 0:
        return 0, None
    v = os.path.join(rundir, 'CrossCheck.v')
    open(v, 'w').write('\n'.join(lines) + '\n')
    p = subprocess.run('timeout 600 coqc -noglob -Q %s BedV %s' % (coqdir, v), shell=True, cwd=rundir,
                       stdout=subprocess.PIPE, stderr=subprocess.STDOUT)
    if p.returncode != 0:
        return n, p.stdout.decode('utf-8', 'replace')[-1500:]
    return n, None

"""In-Coq re-evaluation of a sample of cases (thorough tier, every property): each sampled case line and the answer the
EXTRACTED runner gave for it are turned into Gallina terms of type Run.sexp and written as
`Example xK : run_case <case> = <runner's answer>. Proof. vm_compute. reflexivity. Qed.`, compiled by coqc against
coq/Run.v.  Since the whole case interpreter is Gallina (Run.run_case), a failure means that the extracted OCaml program
(extraction, the OCaml compiler, or the 70-line tokenizer/printer extract/main.ml) and the Gallina model disagree — a
defect of the machinery, not of the repository."""
import os, subprocess
import sx2coq


def run(coqdir, rundir, cases, model_outs, limit=40, max_len=3000):
    """cases: case texts; model_outs: the extracted runner's answer lines.  Returns (n_checked, failure text or None)."""
    pairs = [(c, m) for c, m in zip(cases, model_outs) if 'glue-error' not in m and not m.startswith('(abort')]
    idx = sx2coq.select([c for c, _ in pairs], [m for _, m in pairs], limit, max_len)
    if not idx:
        return 0, None
    lines = ['From BedV Require Import Run.']
    for k, i in enumerate(idx):
        c, m = pairs[i]
        lines.append('Example x%d : run_case (%s) = %s.\nProof. vm_compute. reflexivity. Qed.' % (k, sx2coq.line_term(c), sx2coq.line_term(m)))
    v = os.path.join(rundir, 'CrossCheck.v')
    open(v, 'w').write('\n'.join(lines) + '\n')
    p = subprocess.run('timeout 900 coqc -noglob -Q %s BedV %s' % (coqdir, v), shell=True, cwd=rundir,
                       stdout=subprocess.PIPE, stderr=subprocess.STDOUT)
    if p.returncode != 0:
        return len(idx), p.stdout.decode('utf-8', 'replace')[-1500:]
    return len(idx), None

"""Generators for `lap` cases (scripts over one Lapper), shared by C16..C20.
All random choices come from the one rng handed in."""
import itertools
import sx

W64 = 18446744073709551615
W8 = 255


def pick_mode(rng):
    r = rng.random()
    if r < 0.52: return 'small'
    if r < 0.68: return 'u8'
    if r < 0.78: return 'wide'
    if r < 0.94: return 'dense'
    return 'medium'


def coord(rng, mode):
    if mode == 'small':
        return rng.randint(0, 12)
    if mode == 'medium':
        return rng.randint(0, 300)
    if mode == 'dense':
        return rng.randint(0, rng.choice([900, 4000]))
    if mode == 'u8':
        r = rng.random()
        if r < 0.4: return rng.randint(240, 255)
        if r < 0.5: return rng.randint(0, 5)
        return rng.randint(0, 255)
    base = rng.choice([0, 2**32, 2**63, W64 - 12, W64 - 12, 2**32 - 6])
    return min(W64, base + rng.randint(0, 12))


def width(mode):
    return W8 if mode == 'u8' else W64


def rand_iv(rng, mode, kind):
    """kind: 'ne' (start<stop), 'le' (start<=stop), 'any'"""
    for _ in range(100):
        a, b = coord(rng, mode), coord(rng, mode)
        if kind == 'any':
            return (a, b)
        if a > b:
            a, b = b, a
        if kind == 'le' or a < b:
            return (a, b)
    return (0, 1)


def rand_ivs(rng, mode, n, kind):
    if mode == 'dense' and n > 0:
        # many short intervals (small max_len): binary searches and cursor walks pass dozens of entries; sizes straddle
        # typical internal thresholds (16, 64, 128 elements; counts that are not multiples of 8)
        m = rng.choice([17, 25, 40, 65, 70, 71, 130, 150])
        span = rng.choice([900, 900, 4000])
        xs = sorted(rng.sample(range(0, span), m))
        lo = 0 if kind in ('le', 'any') else 1
        out = [(x, x + rng.randint(lo, 4)) for x in xs]
        r = rng.random()
        if r < 0.25:
            out.append((rng.randint(0, 400), rng.randint(500, 900)))      # plus one long interval somewhere
        elif r < 0.4:
            a = rng.choice(xs[-5:])                                       # the longest interval among the LAST by start
            out.append((a, a + rng.randint(300, 2000)))
        elif r < 0.55:
            # a pile of intervals sharing one start (often 0) with different stops
            a = rng.choice([0, 0, 0, xs[len(xs) // 2]])
            out += [(a, a + rng.randint(1, 60)) for _k in range(rng.choice([3, 9, 12, 20]))]
        elif r < 0.75:
            # a deep pile-up: 63..300 intervals sharing one STOP (distinct or equal starts), or identical copies, so that
            # runs of equal keys in the sorted starts / stops are longer than any linear-scan cap (32, 64, 128, 256)
            k = rng.choice([63, 64, 65, 66, 70, 128, 129, 130, 257, 300])
            e = rng.choice([xs[len(xs) // 2] + 7, span + 5, 450])
            sh = rng.random()
            if sh < 0.5:
                out += [(max(0, e - 1 - i) if kind != 'ne' else max(0, min(e - 1, e - 1 - i)), e) for i in range(k)]
            elif sh < 0.75:
                a = max(0, e - rng.randint(1, 50))
                out += [(a, e)] * k
            else:
                a = rng.choice([0, xs[len(xs) // 3]])
                out += [(a, a + 1 + i) for i in range(k)]      # and the mirror image: one start, k distinct stops
        rng.shuffle(out)
        return out
    out = []
    for _ in range(n):
        r = rng.random()
        if out and r < 0.15:
            out.append(rng.choice(out))                     # duplicate
        elif out and r < 0.30:
            s, e = rng.choice(out)                         # book-end / share an endpoint
            t = rand_iv(rng, mode, kind)
            cand = rng.choice([(e, max(e, t[1])), (min(s, t[0]), s), (s, t[1] if t[1] >= s else s), (t[0] if t[0] <= e else e, e)])
            if kind == 'ne' and cand[0] >= cand[1]:
                cand = rand_iv(rng, mode, kind)
            out.append(cand)
        elif r < 0.36:
            # one huge interval
            lo, hi = (0, width(mode)) if mode in ('u8', 'wide') else (0, 12 if mode == 'small' else 300)
            out.append((lo, hi))
        else:
            out.append(rand_iv(rng, mode, kind))
    return out


def points(ivs, mode):
    w = width(mode)
    pts = set()
    for s, e in ivs:
        for x in (s, e):
            for d in (-1, 0, 1):
                if 0 <= x + d <= w:
                    pts.add(x + d)
    pts.add(0)
    if not ivs:
        pts.update([1, 5])
    return sorted(pts)


def rand_query(rng, pts, mode, nonempty=True):
    for _ in range(50):
        if rng.random() < 0.85:
            a, b = rng.choice(pts), rng.choice(pts)
        else:
            a, b = coord(rng, mode), coord(rng, mode)
        if a > b:
            a, b = b, a
        if a < b or not nonempty:
            return (a, b)
    return (0, 1)


def iv_sx(ivs, first_id=0):
    return ['ivs'] + [[s, e, first_id + i] for i, (s, e) in enumerate(ivs)]


def case(mode, ivs, ops):
    """In about a quarter of the cases a `reload` (bincode round trip of the index) or a `clone` is slipped in at a
    position derived from the case text itself (deterministic): both must leave the index unchanged."""
    import zlib
    h = zlib.crc32(sx.dump(['lap', width(mode), iv_sx(ivs), ['ops'] + ops]).encode())
    ops = list(ops)
    if h % 5 == 0:
        ops.insert((h >> 8) % (len(ops) + 1), ['reload'])
    if h % 11 == 0:
        ops.insert((h >> 16) % (len(ops) + 1), ['clone'])
    return sx.dump(['lap', width(mode), iv_sx(ivs), ['ops'] + ops])


def small_multisets(maxn, maxc, kind):
    """all multisets of <= maxn intervals over coordinates 0..maxc"""
    universe = [(a, b) for a in range(maxc + 1) for b in range(maxc + 1)
                if (kind == 'any') or (kind == 'le' and a <= b) or (kind == 'ne' and a < b)]
    for n in range(maxn + 1):
        for comb in itertools.combinations_with_replacement(universe, n):
            yield list(comb)

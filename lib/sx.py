"""S-expressions used for cases and results: atoms are strings, lists are python lists."""

def parse(s):
    pos = 0
    n = len(s)
    def item():
        nonlocal pos
        while pos < n and s[pos] in ' \t\r\n':
            pos += 1
        if pos >= n:
            raise ValueError('eof')
        if s[pos] == '(':
            pos += 1
            out = []
            while True:
                while pos < n and s[pos] in ' \t\r\n':
                    pos += 1
                if pos >= n:
                    raise ValueError('unclosed')
                if s[pos] == ')':
                    pos += 1
                    return out
                out.append(item())
        if s[pos] == ')':
            raise ValueError('unexpected )')
        st = pos
        while pos < n and s[pos] not in ' \t\r\n()':
            pos += 1
        return s[st:pos]
    r = item()
    return r

def dump(x):
    if isinstance(x, (list, tuple)):
        return '(' + ' '.join(dump(y) for y in x) + ')'
    return str(x)

def hexs(b):
    if isinstance(b, str):
        b = b.encode()
    return b.hex() if b else '-'

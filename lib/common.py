"""Engine shared by every property check: builds, proof step, correspondence run, decision,
shrinking, evidence and replay files.  python3 stdlib only."""
import fcntl, hashlib, json, os, random, re, shutil, subprocess, sys, time
from concurrent.futures import ThreadPoolExecutor

import sx

VERIF = '/verif'
# The registered checks always use /repo, /verif/build and /verif/harness.  The BEDV_* variables exist only for
# bin/mutants, which runs the same checks against private copies of the repository in parallel workers.
REPO = os.environ.get('BEDV_REPO', '/repo')
COQ = VERIF + '/coq'
BUILD = os.environ.get('BEDV_BUILD', VERIF + '/build')
OUT = os.environ.get('BEDV_OUT', VERIF)                    # evidence/ and replays/ live here
HARNESS_DIR = os.environ.get('BEDV_HARNESS', VERIF + '/harness')
SKIP_PROOF = os.environ.get('BEDV_SKIP_PROOF') == '1'
RUNNER = VERIF + '/build/model_runner'
CARGO_TARGET = BUILD + '/cargo'
HARNESS = CARGO_TARGET + '/debug/bedv-harness'
HARNESS_REL = CARGO_TARGET + '/release/bedv-harness'
NPROC = 16
ALLOWED_AXIOMS = []          # nothing: every theorem must be closed under the global context
FORBIDDEN = r'\b(Admitted|admit|Axiom|Axioms|Parameter|Parameters|Conjecture|Conjectures)\b|Unset\s+Guard|bypass_check|Admit\s+Obligations|type-in-type|impredicative-set|Unset\s+Universe\s+Checking|Unset\s+Positivity'

ENV = dict(os.environ, CARGO_NET_OFFLINE='true', CARGO_TARGET_DIR=CARGO_TARGET, BEDV_SCRATCH=OUT + '/run/scratch-%d' % os.getpid())


class Lock:
    def __init__(self, name):
        os.makedirs(BUILD, exist_ok=True)
        self.path = BUILD + '/' + name + '.lock'
    def __enter__(self):
        self.f = open(self.path, 'w')
        fcntl.flock(self.f, fcntl.LOCK_EX)
    def __exit__(self, *a):
        fcntl.flock(self.f, fcntl.LOCK_UN)
        self.f.close()


def sh(cmd, timeout=None, cwd=None, inp=None, env=None):
    p = subprocess.run(cmd, shell=isinstance(cmd, str), cwd=cwd, input=inp, env=env or ENV,
                       stdout=subprocess.PIPE, stderr=subprocess.STDOUT, timeout=timeout)
    return p.returncode, p.stdout.decode('utf-8', 'replace')


# ------------------------------------------------------------------ anchors
EXTRA_ANCHORS = {   # files a property depends on beyond properties.jsonl's anchors.files
    'C01': ['src/bed.rs', 'src/bed/bed_trait.rs'], 'C04': ['src/bed.rs'], 'C08': ['src/bed.rs'], 'C12': ['src/bed/score.rs', 'src/bed/strand.rs'],
    'C11': ['src/intervaltree.rs'], 'C13': ['src/bed.rs'], 'C06': ['src/bed/map.rs', 'src/intervaltree.rs'], 'C15': ['src/extsort/chunk.rs'],
}


def nontest_text(path):
    try:
        txt = open(path).read()
    except OSError:
        return ''
    i = txt.find('#[cfg(test)]')
    return txt if i < 0 else txt[:i]


def anchor_files(pid=None):
    out = {}
    for l in open(VERIF + '/properties.jsonl'):
        p = json.loads(l)
        out[p['id']] = sorted(set(p['anchors']['files'] + EXTRA_ANCHORS.get(p['id'], [])))
    return out if pid is None else out.get(pid, [])


def anchor_hashes():
    files = sorted(set(f for fs in anchor_files().values() for f in fs))
    return {f: hashlib.sha256(nontest_text(REPO + '/' + f).encode()).hexdigest() for f in files}


def source_changed(pid):
    try:
        base = json.load(open(COQ + '/ANCHORS.json'))
    except OSError:
        return []
    cur = anchor_hashes()
    return [f for f in anchor_files(pid) if base.get(f) != cur.get(f)]


# ------------------------------------------------------------------ builds
def build_coq():
    """full .vo build of the Coq development (cached by make); also regenerates coq/model.ml"""
    with Lock('coq'):
        if not os.path.exists(COQ + '/Makefile') or os.path.getmtime(COQ + '/Makefile') < os.path.getmtime(COQ + '/_CoqProject'):
            rc, out = sh('coq_makefile -f _CoqProject -o Makefile', cwd=COQ, timeout=120)
            if rc != 0:
                return False, out
        try:
            rc, out = sh('timeout 3000 make -j%d' % NPROC, cwd=COQ, timeout=3100)
        except subprocess.TimeoutExpired:
            return False, 'coq build timed out'
        return rc == 0, out


def build_runner():
    with Lock('runner'):
        srcs = [COQ + '/model.ml', COQ + '/model.mli', VERIF + '/extract/main.ml']
        if os.path.exists(RUNNER) and all(os.path.getmtime(s) <= os.path.getmtime(RUNNER) for s in srcs):
            return True, 'cached'
        rc, out = sh(VERIF + '/bin/build_runner', timeout=600)
        return rc == 0, out


def build_harness(release=False):
    with Lock('cargo'):
        lock = HARNESS_DIR + '/Cargo.lock'
        if not os.path.exists(lock):
            shutil.copy(REPO + '/Cargo.lock', lock)
        cmd = 'cargo build --offline' + (' --release' if release else '')
        try:
            rc, out = sh(cmd, cwd=HARNESS_DIR, timeout=1500)
        except subprocess.TimeoutExpired:
            return False, 'cargo build timed out'
        return rc == 0, out


# ------------------------------------------------------------------ proof step
def scan_forbidden():
    bad = []
    for root, _, files in os.walk(COQ):
        for f in files:
            if f.endswith('.v'):
                txt = open(os.path.join(root, f)).read()
                # strip comments (nested) before scanning
                txt = strip_comments(txt)
                for m in re.finditer(FORBIDDEN, txt):
                    bad.append('%s: %s' % (os.path.relpath(os.path.join(root, f), COQ), m.group(0)))
                # Variable / Hypothesis outside a Section
                depth = 0
                for line in txt.split('\n'):
                    t = line.strip()
                    if re.match(r'Section\s', t): depth += 1
                    elif re.match(r'End\s', t) and depth > 0: depth -= 1
                    elif depth == 0 and re.match(r'(Variable|Variables|Hypothesis|Hypotheses|Context)\b', t):
                        bad.append('%s: %s outside a Section' % (f, t.split()[0]))
    return bad


def strip_comments(txt):
    out = []
    depth = 0
    i = 0
    n = len(txt)
    while i < n:
        if txt.startswith('(*', i):
            depth += 1; i += 2
        elif txt.startswith('*)', i) and depth > 0:
            depth -= 1; i += 2
        else:
            if depth == 0:
                out.append(txt[i])
            elif txt[i] == '\n':
                out.append('\n')
            i += 1
    return ''.join(out)


def proof_step(pid, rundir, tier='quick'):
    """Returns dict(obligations, discharged, failures[list of str], theorems, axioms)"""
    obl = json.load(open(COQ + '/OBLIGATIONS.json')).get(pid, {})
    thms = obl.get('theorems', [])
    res = dict(obligations=len(thms), discharged=0, failures=[], theorems=thms, axioms={})
    ok, out = build_coq()
    if not ok:
        res['failures'].append('coq build failed: ' + out[-1500:])
        return res
    propfile = COQ + '/Props/%s.v' % pid
    if not os.path.exists(propfile[:-2] + '.vo'):
        res['failures'].append('Props/%s.vo was not produced' % pid)
        return res
    bad = scan_forbidden()
    if bad:
        res['failures'].append('forbidden constructs in coq/: ' + '; '.join(bad[:10]))
        return res
    # statements pinned by hash of the Props file
    h = hashlib.sha256(open(propfile, 'rb').read()).hexdigest()
    if obl.get('props_sha256') and obl['props_sha256'] != h:
        res['failures'].append('Props/%s.v differs from the pinned statement hash' % pid)
        return res
    v = rundir + '/Assum_%s.v' % pid
    with open(v, 'w') as f:
        f.write('From BedV Require Import Props.%s.\n' % pid)
        for t in thms:
            f.write('Print Assumptions %s.\n' % t)
    rc, out = sh('timeout 300 coqc -noglob -Q %s BedV %s' % (COQ, v), cwd=rundir, timeout=320)
    if rc != 0:
        res['failures'].append('Print Assumptions failed: ' + out[-800:])
        return res
    blocks = re.split(r'(?=Closed under the global context|Axioms:)', out)
    blocks = [b for b in blocks if b.startswith('Closed') or b.startswith('Axioms:')]
    if len(blocks) != len(thms):
        res['failures'].append('could not parse Print Assumptions output')
        return res
    for t, b in zip(thms, blocks):
        if b.startswith('Closed'):
            res['discharged'] += 1
        else:
            names = re.findall(r'^([A-Za-z_][\w\.\']*)\s*:', b[len('Axioms:'):], re.M)
            res['axioms'][t] = names
            if all(nm in ALLOWED_AXIOMS for nm in names) and names:
                res['discharged'] += 1
            else:
                res['failures'].append('theorem %s depends on axioms %s' % (t, names))
    if tier == 'thorough' and not res['failures']:
        # independent re-check of the compiled proofs (and everything they depend on) with coqchk
        try:
            rc, out = sh('timeout 1500 coqchk -o -silent -Q %s BedV BedV.Props.%s' % (COQ, pid), cwd=rundir, timeout=1600)
        except subprocess.TimeoutExpired:
            rc, out = 1, 'coqchk timed out'
        m = re.search(r'\* Axioms:\s*(.*?)(?:\n\s*\*|\Z)', out, re.S)
        ax = m.group(1).strip() if m else '?'
        res['coqchk'] = 'rc=%d axioms=%s' % (rc, ax[:200])
        if rc != 0 or (ax not in ('<none>', '')):
            res['failures'].append('coqchk: ' + res['coqchk'] + ' ' + out[-500:])
    return res


# ------------------------------------------------------------------ running both sides
def _run_side(binary, lines, timeout):
    """returns (complete output lines so far, status): status 0 = all done; 'timeout' or a non-zero exit code otherwise.
    Both binaries print one line per case and flush it, so the number of complete lines identifies the culprit."""
    data = ('\n'.join(lines) + '\n').encode()
    def big_stack():
        # the extracted model uses non-tail-recursive list functions (length, app, ...): give it the stack it needs
        import resource
        try:
            resource.setrlimit(resource.RLIMIT_STACK, (resource.RLIM_INFINITY, resource.RLIM_INFINITY))
        except (ValueError, OSError):
            pass
    p = subprocess.Popen([binary], stdin=subprocess.PIPE, stdout=subprocess.PIPE, stderr=subprocess.DEVNULL, env=ENV,
                         preexec_fn=big_stack if binary == RUNNER else None)
    status = 0
    try:
        so, _ = p.communicate(data, timeout=timeout)
        status = p.returncode
    except subprocess.TimeoutExpired:
        p.kill()
        so, _ = p.communicate()
        status = 'timeout'
    txt = so.decode('utf-8', 'replace')
    outs = txt.split('\n')
    if outs and outs[-1] == '':
        outs.pop()
    elif outs and not txt.endswith('\n'):
        outs.pop()          # an incomplete last line belongs to the case that died
    return outs, status


CASE_TIMEOUT = int(os.environ.get('BEDV_CASE_TIMEOUT', '240'))
HANG_SEEN = []          # non-empty once a case was confirmed to hang in this run
FAST_ABORT = os.environ.get('BEDV_FAST_ABORT') == '1'      # bin/mutants: after a hang the rest of the shard is not re-run


def run_side(binary, cases, timeout=None, shards=NPROC):
    """Runs cases through a line-oriented binary, sharded.  When a shard dies (abort, stack overflow) or hangs, the case
    after the last complete output line is the culprit: its result is `(abort <rc>)` / `(abort timeout)` and the run
    resumes with the cases after it."""
    if not cases:
        return []
    timeout = timeout or CASE_TIMEOUT
    k = max(1, min(shards, (len(cases) + 19) // 20))
    idxs = [list(range(i, len(cases), k)) for i in range(k)]
    results = [None] * len(cases)
    def work(ix):
        todo = list(ix)
        hangs = 0
        dead_starts = 0
        while todo:
            # the time limit of a shard grows with its size; it only exists to get out of a hang
            outs, st = _run_side(binary, [cases[i] for i in todo], (timeout + 0.05 * len(todo)) if hangs == 0 else min(timeout, 30))
            n = min(len(outs), len(todo))
            for i, o in zip(todo[:n], outs[:n]):
                results[i] = o
            if n == len(todo):
                return
            if st == 'timeout' and not FAST_ABORT:
                # a slow (loaded) machine is not a hang: the case the shard stopped at is run once more ALONE with the
                # full time limit; only if it does not finish then either is it reported as hanging
                o1, st1 = _run_side(binary, [cases[todo[n]]], 2 * timeout)      # generous: the heaviest single cases take ~30 s on an idle machine
                if st1 == 0 and len(o1) == 1:
                    results[todo[n]] = o1[0]
                    todo = todo[n + 1:]
                    continue
                # a confirmed hang is a definite answer: the rest of this shard is not run (it would hang again and
                # again, turning a check of minutes into one of an hour), and nothing is shrunk afterwards
                HANG_SEEN.append(1)
                for i in todo[n:]:
                    results[i] = '(abort timeout)'
                return
            results[todo[n]] = '(abort %s)' % st
            todo = todo[n + 1:]
            # a shard that dies on the very first case it is given, three times in a row (every case exhausts memory,
            # aborts, overflows the stack ...), is not run to the end either
            dead_starts = dead_starts + 1 if n == 0 else 0
            if dead_starts >= 3 and not os.environ.get('BEDV_KEEP_GOING'):
                HANG_SEEN.append(1)
                for i in todo:
                    results[i] = '(abort %s)' % st
                return
            if st == 'timeout':
                hangs += 1
                if FAST_ABORT or hangs >= 3:
                    for i in todo:
                        results[i] = '(abort timeout)'
                    return
    with ThreadPoolExecutor(max_workers=k) as ex:
        list(ex.map(work, idxs))
    return results


def judge(prop, texts, impls, models):
    """per case: True = the implementation's output is NOT accepted.
    1. canonical equality with the model output (or prop.agree);
    2. for properties with an outcome-level oracle (prop.oracle_line): the oracle, extracted from Coq, is
       evaluated by the model runner on the implementation's actual output; it decides the cases the property
       leaves under-determined (oracle-only cases, or sequences that differ only by an unspecified tie order)."""
    bad = []
    for t, a, b in zip(texts, impls, models):
        if 'glue-error' in b or b.startswith('(abort'):
            bad.append(True)
        elif hasattr(prop, 'agree'):
            bad.append(not prop.agree(t, a, b))
        else:
            bad.append(prop.canon(t, a) != prop.canon(t, b))
    if hasattr(prop, 'oracle_line'):
        idxs, lines = [], []
        for i, (t, a, b) in enumerate(zip(texts, impls, models)):
            l = prop.oracle_line(t, a, b, bad[i])
            if l is not None:
                idxs.append(i); lines.append(l)
        if lines:
            vs = run_side(RUNNER, lines)
            for i, v in zip(idxs, vs):
                bad[i] = (v.strip() != '(verdict 1)')
    return bad


class Case:
    __slots__ = ('text', 'nontrivial', 'cls')
    def __init__(self, text, nontrivial=True, cls='random'):
        self.text = text if isinstance(text, str) else sx.dump(text)
        self.nontrivial = nontrivial
        self.cls = cls


def load_corpus(pid):
    d = VERIF + '/corpus/' + pid
    out = []
    if os.path.isdir(d):
        for f in sorted(os.listdir(d)):
            if f.endswith('.case'):
                for line in open(os.path.join(d, f)):
                    line = line.strip()
                    if line and not line.startswith('#'):
                        out.append(Case(line, True, 'corpus:' + f))
    return out


def known_findings(pid):
    """finding lines of /verif/KNOWN_FINDINGS for pid: list of (cls_regex, text)"""
    out = []
    p = VERIF + '/KNOWN_FINDINGS'
    if os.path.exists(p):
        for line in open(p):
            m = re.match(r'finding:\s+property=(\S+)\s+class=(\S+)\s+(.*)', line.strip())
            if m and m.group(1) == pid:
                out.append((m.group(2), m.group(3)))
    return out


# ------------------------------------------------------------------ shrinking
def shrink(case_text, still_fails, budget=400):
    """generic delta debugging on the S-expression: delete list elements (that are lists themselves
    or atoms inside untagged lists) while the failure persists; then shrink numbers."""
    cur = sx.parse(case_text)
    calls = [0]
    def test(c):
        calls[0] += 1
        return still_fails(sx.dump(c))
    def paths(x, p=()):
        if isinstance(x, list):
            for i, y in enumerate(x):
                if isinstance(y, list):
                    yield p + (i,)
                    yield from paths(y, p + (i,))
    def delete(x, path):
        if len(path) == 1:
            return x[:path[0]] + x[path[0] + 1:]
        return x[:path[0]] + [delete(x[path[0]], path[1:])] + x[path[0] + 1:]
    changed = True
    while changed and calls[0] < budget:
        changed = False
        for p in sorted(paths(cur), key=lambda q: (len(q), tuple(-i for i in q))):
            if len(p) < 2:
                continue   # keep top-level structure
            try:
                cand = delete(cur, p)
            except Exception:
                continue
            if calls[0] >= budget:
                break
            if test(cand):
                cur = cand
                changed = True
                break
    return sx.dump(cur)


# ------------------------------------------------------------------ main driver
def main(prop, argv):
    t0 = time.time()
    pid = prop.ID
    tier = os.environ.get('VERIF_TIER') or 'quick'
    replay = None
    args = argv[:]
    while args:
        a = args.pop(0)
        if a in ('quick', 'thorough'):
            if not os.environ.get('VERIF_TIER'):
                tier = a
        elif a == '--replay':
            replay = args.pop(0)
    if tier not in ('quick', 'thorough'):
        tier = 'quick'
    seed = int(os.environ.get('VERIF_SEED', '1') or 1)
    rundir = '%s/run/%s-%d' % (OUT, pid, os.getpid())
    os.makedirs(rundir, exist_ok=True)
    os.makedirs(OUT + '/evidence', exist_ok=True)
    os.makedirs(OUT + '/replays', exist_ok=True)
    try:
        rc = _main(prop, pid, tier, seed, replay, rundir, t0)
    finally:
        shutil.rmtree(rundir, ignore_errors=True)
        shutil.rmtree(ENV['BEDV_SCRATCH'], ignore_errors=True)
    sys.exit(rc)


def write_replay(pid, tag, payload):
    path = '%s/replays/%s-%s.json' % (OUT, pid, tag)
    json.dump(payload, open(path, 'w'), indent=1)
    return path


def _main(prop, pid, tier, seed, replay, rundir, t0):
    violations = []      # (replay_path, suffix)
    if not replay:
        for f in os.listdir(OUT + '/replays'):
            if f.startswith(pid + '-'):
                os.remove(OUT + '/replays/' + f)
    known_lines = []
    notes = []
    # 1. proof step
    if SKIP_PROOF:
        pr = dict(obligations=0, discharged=0, failures=[], theorems=[], axioms={})
    else:
        pr = proof_step(pid, rundir, tier)
    if pr['failures']:
        path = write_replay(pid, 'proof', dict(property=pid, kind='proof-obligation', tier=tier,
                            no_longer_checks=pr['failures'], theorems=pr['theorems']))
        violations.append((path, ' no-failing-input-found'))
    # 2. builds
    ok, out = build_runner()
    if not ok:
        path = write_replay(pid, 'runner', dict(property=pid, kind='model-runner-build', log=out[-3000:]))
        violations.append((path, ' no-failing-input-found'))
        return finish(prop, pid, tier, seed, t0, pr, [], [], violations, known_lines, {}, notes)
    ok, out = build_harness()
    if not ok:
        path = write_replay(pid, 'build', dict(property=pid, kind='harness-build-against-current-tree',
                            no_longer_checks='corr_%s (the correspondence harness no longer builds against /repo)' % pid, log=out[-4000:]))
        violations.append((path, ' no-failing-input-found'))
        return finish(prop, pid, tier, seed, t0, pr, [], [], violations, known_lines, {}, notes)
    if replay:
        rp = json.load(open(replay))
        cases = [Case(rp['case'], True, 'replay')] if 'case' in rp else []
        if not cases:
            print('replay file holds no case (%s)' % rp.get('kind'))
            return 0
    else:
        rng = random.Random(seed * 1000003 + int(hashlib.sha256(pid.encode()).hexdigest()[:8], 16))
        changed = [] if os.environ.get('BEDV_NO_ESCALATE') == '1' else source_changed(pid)
        if changed:
            notes.append('source_changed: %s (quick tier generates the thorough number of cases)' % ', '.join(changed))
        cases = load_corpus(pid) + list(prop.gen(rng, 'thorough' if changed else tier))
    texts = [c.text for c in cases]
    impl = run_side(HARNESS, texts)
    model = run_side(RUNNER, texts)
    mism = []
    dist = {}
    nontriv = set()
    verdicts = judge(prop, texts, impl, model)
    for i, c in enumerate(cases):
        dist[c.cls.split(':')[0]] = dist.get(c.cls.split(':')[0], 0) + 1
        if c.nontrivial:
            nontriv.add(hashlib.sha1(c.text.encode()).digest())
        if 'glue-error' in model[i] or model[i].startswith('(abort'):
            notes.append('model runner problem on case %d: %s' % (i, model[i][:200]))
        if verdicts[i]:
            mism.append(i)
    # thorough tier: the same cases once more through a RELEASE build of the harness (no overflow checks, optimised):
    # silent wrap-around and optimisation-dependent behaviour.  Cases on which the model itself says Panic (a guard of the
    # theorem, e.g. cov A + cov B above the type maximum) are skipped: there a release build wraps by design.
    rel_mism = []
    if tier == 'thorough' and not replay and os.environ.get('BEDV_NO_RELEASE') != '1':
        okr, outr = build_harness(release=True)
        if not okr:
            notes.append('release harness did not build: ' + outr[-300:])
        else:
            idx_r = [i for i in range(len(cases)) if 'panic' not in model[i] and i not in mism]
            impl_r = run_side(HARNESS_REL, [texts[i] for i in idx_r])
            vr = judge(prop, [texts[i] for i in idx_r], impl_r, [model[i] for i in idx_r])
            for i, o, bad in zip(idx_r, impl_r, vr):
                if bad:
                    rel_mism.append(i); impl[i] = o
            notes.append('release profile: %d cases re-run, %d mismatches' % (len(idx_r), len(rel_mism)))
            mism = mism + rel_mism
    # thorough tier: a sample of the cases is re-evaluated inside Coq (vm_compute of Run.run_case, the Gallina case
    # interpreter the runner is extracted from) and compared with what the extracted runner answered: cross-check of the
    # extraction, the OCaml compiler and the tokenizer/printer extract/main.ml
    if tier == 'thorough' and not replay:
        import crosscheck
        step = max(1, len(cases) // 400)
        n_cc, err_cc = crosscheck.run(COQ, rundir, texts[::step], model[::step], limit=60)
        notes.append('in-Coq cross-check of the extracted runner: %d cases re-evaluated by vm_compute, %s' % (n_cc, 'all equal' if err_cc is None else 'MISMATCH'))
        if err_cc is not None:
            path = write_replay(pid, 'extraction', dict(property=pid, kind='extraction-cross-check',
                                no_longer_checks='the extracted runner and the Gallina model (vm_compute) disagree on a case', log=err_cc))
            violations.append((path, ' no-failing-input-found'))
    if replay:
        for i, c in enumerate(cases):
            print('case : ' + c.text)
            print('impl : ' + impl[i])
            print('model: ' + model[i])
            print('agree' if i not in mism else 'DISAGREE')
    # 3. decide
    kf = known_findings(pid)
    reported = 0
    seen = set()
    attempts = 0
    for i in mism:
        c = cases[i]
        if hasattr(prop, 'classify'):
            f0 = prop.classify(c.text, impl[i], model[i])
            hit0 = [txt for (cre, txt) in kf if re.fullmatch(cre, f0 or '')]
            if hit0:
                known_lines.append('KNOWN-FINDING: property=%s %s' % (pid, hit0[0]))
                continue
        if reported >= 3 or attempts >= 12:
            continue
        attempts += 1
        hb = HARNESS_REL if i in rel_mism else HARNESS
        def still(t):
            a = run_side(hb, [t], timeout=60, shards=1)[0]
            b = run_side(RUNNER, [t], timeout=60, shards=1)[0]
            if 'glue-error' in a or 'glue-error' in b:
                return False
            return judge(prop, [t], [a], [b])[0]
        small = c.text
        hang = impl[i].startswith('(abort timeout')          # a hanging case is reported as it is: every shrinking step would hang again
        if not replay and os.environ.get('BEDV_NO_SHRINK') != '1' and not hang and not HANG_SEEN:
            try:
                small = shrink(c.text, still)
            except Exception as e:
                notes.append('shrink failed: %r' % e)
        if small in seen:
            continue
        seen.add(small)
        if small == c.text:
            si, sm = impl[i], model[i]
        else:
            si = run_side(hb, [small], shards=1)[0]
            sm = run_side(RUNNER, [small], shards=1)[0]
        fclass = prop.classify(small, si, sm) if hasattr(prop, 'classify') else ''
        hit = [txt for (cre, txt) in kf if re.fullmatch(cre, fclass or '')]
        if hit:
            known_lines.append('KNOWN-FINDING: property=%s %s' % (pid, hit[0]))
            continue
        expl = prop.explain(small, si, sm) if hasattr(prop, 'explain') else ''
        path = write_replay(pid, '%d' % (reported + 1), dict(
            property=pid, tier=tier, seed=seed, kind='correspondence-mismatch', case=small, original_case=c.text,
            impl_output=si, model_output=sm, failure_class=fclass, failing_clause=expl, profile=('release' if i in rel_mism else 'debug'),
            how_to_replay='bin/check %s --replay <this file>' % pid,
            theorem=getattr(prop, 'UNIQUE_NOTE', '')))
        suffix = ''
        if hasattr(prop, 'spec_fails') and not prop.spec_fails(small, si, sm):
            suffix = ' no-failing-input-found'
        violations.append((path, suffix))
        reported += 1
    if mism and not violations and not known_lines:
        # every mismatch shrank to something already seen/unclassifiable: still a failed correspondence
        c = cases[mism[0]]
        path = write_replay(pid, '1', dict(property=pid, tier=tier, seed=seed, kind='correspondence-mismatch', case=c.text,
                            impl_output=impl[mism[0]], model_output=model[mism[0]]))
        violations.append((path, ''))
    return finish(prop, pid, tier, seed, t0, pr, cases, mism, violations, known_lines, dist, notes,
                  nontriv=len(nontriv), impl=impl)


def finish(prop, pid, tier, seed, t0, pr, cases, mism, violations, known_lines, dist, notes, nontriv=0, impl=None):
    samples = []
    for c in cases[:2] + cases[len(cases) // 2: len(cases) // 2 + 2]:
        samples.append(c.text[:600])
    for t in pr['theorems'][:3]:
        samples.append('theorem ' + t)
    ev = dict(
        property_id=pid, tier=tier, seed=seed, level='proof',
        coverage=dict(
            obligations=max(pr['obligations'], 1), discharged=pr['discharged'],
            checker_cmd='make -C /verif/coq (coqc 8.16.1 full .vo build) ; coqc Print Assumptions for %s ; forbidden-construct scan ; statement hash' % ', '.join(pr['theorems']),
            trusted_base=getattr(prop, 'TRUSTED', []) + [
                'Coq 8.16.1 kernel (coqc); no native_compute; vm_compute only in Examples / *_refuted witnesses',
                'axioms: none (Print Assumptions of every listed theorem must be "Closed under the global context")',
                'extraction to OCaml with ExtrOcamlBasic only (Extract Inductive bool/option/unit/list/prod/sumbool/sumor); no Extract Constant; OCaml 4.13.1',
                'hand-written glue: extract/main.ml (70-line tokenizer/printer; the case interpreter itself is Gallina, coq/Run.v, extracted with the model and re-evaluated in Coq on a sample in the thorough tier), harness/src/*.rs, lib/*.py (case generation, canonical forms, comparison)',
                'all of bed-utils is modelled (hand-written Gallina), tied to /repo by the differential correspondence run on every check'],
            theorems=pr['theorems'], axioms_reported=pr['axioms'], coqchk=pr.get('coqchk', 'not run (thorough tier only)'),
            evaluations=len(cases), distinct_nontrivial=nontriv,
            rule=getattr(prop, 'RULE', ''), samples=samples,
            traces_validated_against_impl=len(cases), disagreements_checked=len(mism),
            input_distribution=dist, source_changed=[n for n in notes if n.startswith('source_changed')], exhaustive=bool(getattr(prop, 'EXHAUSTIVE', {}).get(tier, False)),
            profile='debug (unoptimised, overflow checks on)' + ('; thorough tier also release' if tier == 'thorough' else ''), notes=notes[:20]),
        assumptions=getattr(prop, 'ASSUMPTIONS', []),
        wall_s=round(time.time() - t0, 2), violations=len(violations))
    if pr['obligations'] == 0:
        ev['coverage']['notes'].append('no theorem registered for this property yet')
    json.dump(ev, open('%s/evidence/%s.json' % (OUT, pid), 'w'), indent=1)
    for k in sorted(set(known_lines)):
        print(k)
    for path, suffix in violations:
        print('VIOLATION property=%s replay=%s%s' % (pid, path, suffix))
    print('%s %s: %d cases, %d mismatches, %d/%d obligations, %.1fs' % (pid, tier, len(cases), len(mism), pr['discharged'], pr['obligations'], time.time() - t0))
    return 1 if violations else 0

"""Generators for genomic records (chromosome + interval), shared by C02, C05, C06, C07, C08, C11, C13."""
import sx
import lapgen as G

CHROMS = [b'chr1', b'chr10', b'chr', b'chr2', b'c', b'chrX', 'chré'.encode(), b'1', b'']      # the empty name is a legal chromosome ("\t5\t9" parses to it)
W64 = G.W64


# families of LONG names that agree on a long prefix (16, 32, 64 bytes and more) and differ only after it, some of equal
# length: an implementation that compares, hashes or stores only a bounded prefix of the chromosome name confuses them
_P16 = b'chrUn_KI270302v1'
_P19 = b'HLA-DRB1*15:01:01:0'
_P40 = b'NW_017852933.1_unplaced_genomic_scaffold'
_P70 = b'GL000' + b'x' * 60 + 'é'.encode() + b'abc'
LONG_FAMILIES = [
    [_P16, _P16 + b'_a', _P16 + b'_b', _P16 + b'_'],
    [_P19 + b'1', _P19 + b'2', _P19 + b'03', _P19 + b'1x'],
    [_P40 + b'_0001', _P40 + b'_0002', _P40 + b'_00010'],
    [_P70 + b'1', _P70 + b'2', _P70],
    [b'c' * 255 + b'a', b'c' * 255 + b'b'],
]


# names that a normalising comparison would confuse: zero-padded twins, letter-case twins, trailing / leading blanks
TWIN_FAMILIES = [
    [b'chr1', b'chr01', b'chr001', b'chr10'],
    [b'scaffold_7', b'scaffold_007', b'scaffold_70'],
    [b'0', b'00', b'000'],
    [b'2', b'10', b'1a', b'9', b'100', b'02'],          # digits-only names of different lengths: byte order is not numeric order
    [b'chrX', b'chrx', b'CHRX', b'ChrX'],
    [b'chrM', b'chrm', b'chrMT'],
    [b'chr1', b'chr1 ', b' chr1', b'chr1\x00'],
    ['chré'.encode(), 'chrÉ'.encode(), b'chre'],
]


def chrom(rng, k=None):
    return rng.choice(CHROMS[:k] if k else CHROMS)


def chrom_set(rng, n):
    """n chromosome names: usually independent draws from the short pool, sometimes members of one long-prefix family"""
    r = rng.random()
    if r < 0.24:
        fam = rng.choice(LONG_FAMILIES if r < 0.12 else TWIN_FAMILIES)
        return [rng.choice(fam) for _ in range(max(1, n))] if n != 2 else rng.sample(fam, 2)
    return [chrom(rng) for _ in range(max(1, n))]


def h(c):
    return sx.hexs(c)


def rand_regions(rng, mode, n, kind, nchrom=3):
    """list of (chrom bytes, s, e)"""
    ivs = G.rand_ivs(rng, mode, n, kind)
    cs = chrom_set(rng, nchrom)
    return [(rng.choice(cs), s, e) for (s, e) in ivs]


def points_by_chrom(regs, mode):
    d = {}
    for c, s, e in regs:
        d.setdefault(c, []).append((s, e))
    return {c: G.points(v, mode) for c, v in d.items()}


def rand_query(rng, regs, mode, nonempty=True):
    """(chrom, s, e): mostly a stored chromosome with endpoints drawn from its records, sometimes absent"""
    pbc = points_by_chrom(regs, mode)
    r = rng.random()
    if pbc and r < 0.85:
        c = rng.choice(sorted(pbc))
        a, b = G.rand_query(rng, pbc[c], mode, nonempty)
    elif pbc and r < 0.93:
        c = rng.choice(CHROMS)
        fams = [f for f in LONG_FAMILIES + TWIN_FAMILIES if any(x in f for x in pbc)]
        if fams:
            c = rng.choice(rng.choice(fams))          # a sibling sharing the long prefix, stored or not
        allp = sorted(set(p for v in pbc.values() for p in v))
        a, b = G.rand_query(rng, allp, mode, nonempty)
    else:
        c = b'absent'
        a, b = G.rand_query(rng, [0, 1, 5, 9], mode, nonempty)
    return (c, a, b)


def hit(q, r):
    return q[0] == r[0] and r[1] < q[2] and q[1] < r[2]

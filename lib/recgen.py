"""Generators for genomic records (chromosome + interval), shared by C02, C05, C06, C07, C08, C11, C13."""
import sx
import lapgen as G

CHROMS = [b'chr1', b'chr10', b'chr', b'chr2', b'c', b'chrX', 'chré'.encode(), b'1']
W64 = G.W64


def chrom(rng, k=None):
    return rng.choice(CHROMS[:k] if k else CHROMS)


def h(c):
    return sx.hexs(c)


def rand_regions(rng, mode, n, kind, nchrom=3):
    """list of (chrom bytes, s, e)"""
    ivs = G.rand_ivs(rng, mode, n, kind)
    cs = [chrom(rng) for _ in range(max(1, nchrom))]
    return [(rng.choice(cs), s, e) for (s, e) in ivs]


def points_by_chrom(regs, mode):
    d = {}
    for c, s, e in regs:
        d.setdefault(c, []).append((s, e))
    return {c: G.points(v, mode) for c, v in d.items()}


def rand_query(rng, regs, mode, nonempty=True):
    """(chrom, s, e): mostly a stored chromosome with endpoints drawn from its records, sometimes absent"""
    pbc = points_by_chrom(regs, mode)
    r = rng.random()
    if pbc and r < 0.85:
        c = rng.choice(sorted(pbc))
        a, b = G.rand_query(rng, pbc[c], mode, nonempty)
    elif pbc and r < 0.93:
        c = rng.choice(CHROMS)
        allp = sorted(set(p for v in pbc.values() for p in v))
        a, b = G.rand_query(rng, allp, mode, nonempty)
    else:
        c = b'absent'
        a, b = G.rand_query(rng, [0, 1, 5, 9], mode, nonempty)
    return (c, a, b)


def hit(q, r):
    return q[0] == r[0] and r[1] < q[2] and q[1] < r[2]
